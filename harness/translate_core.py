"""Translator for the checker's core: Python AST -> Lean definitions (`Generated/Core.lean`).

Translated on every run, from the tree under test:
  * the body of the loop of `DLTypeContext._assert_tensor_shape`            -> `Gen.dimStep`
  * `TensorTypeBase.check`: everything before its loop                      -> `Gen.checkHead`
                            the body of its loop over the literal axes      -> `Gen.literalStep`
  * the body of the `while` loop of `DLTypeContext.assert_context`          -> `Gen.tensorBody`

The loop skeletons themselves (`for i, d in enumerate(xs)` = recursion over the list with a running index, `for idx, dim in
pairs` = recursion over the pairs, `while queue: popleft()` = recursion over the queue) are fixed text; `get_expected_shape`
and `DLTypeContext.add` stay hand-modelled (`expandDims`, `addGo`).  `Properties/Core.lean` proves each generated definition
equal to the hand-written model the property theorems are about, so a change of the Python source changes the generated
definition and breaks that proof (or, when the shape of the code is not one the translator reads, the translation).

The statement language read: docstrings / logging calls (skipped), `if/elif/else` (falling through or ending in
`continue` / `raise`), `raise _errors.X(keyword=...)`, assignments to locals, `+=` on locals, `d[key] = value`,
`x = d.setdefault(key, value)` (also inside an `if` test), the `try: x = dim.evaluate(scope) except KeyError` idiom, and the
calls `annotation.check(...)`, `get_expected_shape(...)`, `self._assert_tensor_shape(...)`, `queue.popleft()`.
Expressions: names, attribute chains of the objects involved, `len`, `tuple`, integer `+ -`, comparisons, `in / not in` on
the two dicts, `is (not) None`, `and / or / not`, f-string `f"*{name}"`, subscripts (`actual_shape[dim_idx]` inside the
enumerate loop is the parallel list element; any other subscript of a shape is Python indexing: negative wraps, out of range
raises IndexError).  Python ints are `Int` unless both operands are lengths / indices (`Nat`) and the operator is `+` or a
comparison.  Anything else raises `TranslationError` naming the construct.
"""
from __future__ import annotations

import ast
import copy
import os


class TErr(Exception):
    pass


class V:
    """a translated value: Lean text and its type"""

    def __init__(self, text, ty):
        self.text, self.ty = text, ty


class Obj:
    """a Python object whose attributes are read (kind decides the attribute table, base is the Lean term)"""

    def __init__(self, kind, base):
        self.kind, self.base = kind, base


def _src(node) -> str:
    try:
        return ast.unparse(node)
    except Exception:  # noqa: BLE001
        return type(node).__name__


PROP = "| .reject r => .reject r\n{ind}| .pyExc x => .pyExc x\n{ind}| .unmodelled => .unmodelled"


def P(text: str) -> str:
    """a multi-line sub-term is parenthesised (nested `match` / `if` must not capture the alternatives that follow)"""
    return "(" + text + ")" if "\n" in text else text


class Env:
    def __init__(self):
        self.vars: dict[str, V] = {}
        self.objs: dict[str, Obj] = {}
        self.some: dict[str, str] = {}  # Lean text of an Option value known to be `some x` -> x
        self.n = 0
        self.mode = ""

    def copy(self):
        e = copy.copy(self)
        e.vars, e.objs, e.some = dict(self.vars), dict(self.objs), dict(self.some)
        return e


class Comp:
    def __init__(self, loop_k):
        self.loop_k = loop_k  # what `continue` (= reaching the end of the loop body) produces
        self.fresh = 0

    # ---- types ----------------------------------------------------------------------------------
    def to_int(self, v: V) -> str:
        if v.ty == "Int":
            return v.text
        if v.ty == "Nat":
            return f"(Int.ofNat {v.text})"
        raise TErr(f"an integer is expected, got {v.ty}: {v.text}")

    def to_nat(self, v: V) -> str:
        if v.ty == "Nat":
            return v.text
        if v.ty == "Int":
            return f"(Int.toNat {v.text})"
        raise TErr(f"an index is expected, got {v.ty}: {v.text}")

    def to_bool(self, v: V) -> str:
        if v.ty != "Bool":
            raise TErr(f"a condition is expected, got {v.ty}: {v.text}")
        return v.text

    # ---- attributes -----------------------------------------------------------------------------
    def attr(self, o: Obj, name: str, env: Env, node):
        k, b = o.kind, o.base
        if k == "dim":
            t = {"is_anonymous": V(f"{b}.isAnonymous", "Bool"), "is_literal": V(f"{b}.isLiteral", "Bool"), "is_identifier": V(f"{b}.isIdentifier", "Bool"),
                 "identifier": V(f"{b}.identifier", "Name")}
        elif k == "ctx":
            t = {"tensor_shape_map": V("σ", "Scope"), "registered_tensor_dtypes": V("registered", "Reg"), "_hinted_tensors": Obj("queue", "queue")}
        elif k == "ann":
            t = {"multiaxis_index": V(f"{b}.multiIdx", "OptNat"), "multiaxis_name": V(f"{b}.multiName", "OptName"), "expected_shape": V(f"{b}.dims", "Dims"),
                 "_literal_dims": V(f"{b}.literalDims", "Pairs"), "DTYPES": V(f"{b}.cls", "DTYPES")}
        elif k == "tensor":
            t = {"shape": V(f"{b}.shape", "Shape"), "ndim": V(f"{b}.shape.length", "Nat"), "dtype": V(f"{b}.dt", "Dtype")}
        elif k == "entry":
            t = {"tensor": Obj("tensor", f"{b}.tensor"), "dltype_annotation": Obj("ann", f"{b}.ann"), "tensor_arg_name": V(f"{b}.displayName", "Name")}
        else:
            t = {}
        if name not in t:
            raise TErr(f"attribute `{_src(node)}` is not one the translator reads")
        return t[name]

    # ---- expressions ----------------------------------------------------------------------------
    def expr(self, e, env: Env, hoist: list):
        if isinstance(e, ast.Name):
            if e.id in env.vars:
                return env.vars[e.id]
            if e.id in env.objs:
                return env.objs[e.id]
            raise TErr(f"name `{e.id}` is not bound by anything the translator read")
        if isinstance(e, ast.Constant):
            if isinstance(e.value, bool):
                return V("true" if e.value else "false", "Bool")
            if isinstance(e.value, int):
                return V(str(e.value), "Nat") if e.value >= 0 else V(f"({e.value})", "Int")
            if e.value is None:
                return V("none", "None")
            raise TErr(f"constant `{_src(e)}`")
        if isinstance(e, ast.Attribute):
            base = self.expr(e.value, env, hoist)
            if not isinstance(base, Obj):
                raise TErr(f"attribute of a value: `{_src(e)}`")
            return self.attr(base, e.attr, env, e)
        if isinstance(e, ast.Call):
            if isinstance(e.func, ast.Name) and e.func.id == "len" and len(e.args) == 1 and not e.keywords:
                a = self.expr(e.args[0], env, hoist)
                if isinstance(a, V) and a.ty in ("Shape", "Dims"):
                    return V(f"{a.text}.length", "Nat")
                raise TErr(f"len of `{_src(e.args[0])}`")
            if isinstance(e.func, ast.Name) and e.func.id == "tuple" and len(e.args) == 1 and not e.keywords:
                return self.expr(e.args[0], env, hoist)
            if isinstance(e.func, ast.Attribute) and e.func.attr == "setdefault" and len(e.args) == 2 and not e.keywords:
                d = self.expr(e.func.value, env, hoist)
                if isinstance(d, V) and d.ty == "Scope":
                    k = self.expr(e.args[0], env, hoist)
                    v = self.expr(e.args[1], env, hoist)
                    if k.ty != "Name":
                        raise TErr(f"dict key `{_src(e.args[0])}`")
                    self.fresh += 1
                    nm = f"sd{self.fresh}"
                    hoist.append(("setdefault", k.text, self.to_int(v), nm))
                    return V(nm, "Int")
            raise TErr(f"call `{_src(e)}`")
        if isinstance(e, ast.Subscript):
            base = self.expr(e.value, env, hoist)
            idx = self.expr(e.slice, env, hoist)
            if isinstance(base, V) and base.ty == "Shape":
                if env.mode == "enumerate" and base.text == "ACTUAL" and isinstance(e.slice, ast.Name) and e.slice.id == env.enum_index:
                    return V("actual", "Nat")  # xs[i] inside `for i, _ in enumerate(ys)`: the parallel element
                if base.text == "ACTUAL":
                    raise TErr(f"`{_src(e)}`: the actual shape is indexed by something other than the loop index")
                self.fresh += 1
                nm = f"s{self.fresh}"
                key = ("index", base.text, self.to_int(idx))
                for h in hoist:
                    if h[:3] == key:
                        return V(h[3], "Nat")
                hoist.append((*key, nm))
                return V(nm, "Nat")
            if isinstance(base, V) and base.ty == "Scope":
                if idx.ty != "Name":
                    raise TErr(f"dict key `{_src(e.slice)}`")
                self.fresh += 1
                nm = f"g{self.fresh}"
                hoist.append(("get", idx.text, None, nm))
                return V(nm, "Int")
            raise TErr(f"subscript `{_src(e)}`")
        if isinstance(e, ast.JoinedStr):
            # f"*{name}"
            if len(e.values) == 2 and isinstance(e.values[0], ast.Constant) and e.values[0].value == "*" and isinstance(e.values[1], ast.FormattedValue) \
                    and e.values[1].conversion == -1 and e.values[1].format_spec is None:
                v = self.opt_value(self.expr(e.values[1].value, env, hoist), env, e)
                if v.ty == "Name":
                    return V(f"(lenKey {v.text})", "Name")
            raise TErr(f"f-string `{_src(e)}`")
        if isinstance(e, ast.UnaryOp) and isinstance(e.op, ast.Not):
            return V(f"(!{self.to_bool(self.expr(e.operand, env, hoist))})", "Bool")
        if isinstance(e, ast.BoolOp):
            op = "&&" if isinstance(e.op, ast.And) else "||"
            if self.is_dtype_test(e):
                # `not DTYPES or dtype in DTYPES` is the acceptance function of the class (the regenerated dtype table)
                return V("(!(acc ann.cls t.dt))", "Bool")
            env2 = env.copy()
            parts = []
            for v in e.values:
                t = self.expr(v, env2, hoist)
                parts.append(self.to_bool(t))
                # `x is not None and ... x ...`: later conjuncts may use x
                if isinstance(e.op, ast.And) and isinstance(v, ast.Compare) and len(v.ops) == 1 and isinstance(v.ops[0], ast.IsNot):
                    o = self.expr(v.left, env2, hoist)
                    if isinstance(o, V) and o.ty in ("OptNat", "OptName"):
                        env2.some[o.text] = f"({o.text}.getD {'0' if o.ty == 'OptNat' else '[]'})"
            return V("(" + f" {op} ".join(parts) + ")", "Bool")
        if isinstance(e, ast.BinOp) and isinstance(e.op, (ast.Add, ast.Sub)):
            a = self.opt_value(self.expr(e.left, env, hoist), env, e.left)
            b = self.opt_value(self.expr(e.right, env, hoist), env, e.right)
            if isinstance(e.op, ast.Add) and a.ty == "Nat" and b.ty == "Nat":
                return V(f"({a.text} + {b.text})", "Nat")
            return V(f"({self.to_int(a)} {'+' if isinstance(e.op, ast.Add) else '-'} {self.to_int(b)})", "Int")
        if isinstance(e, ast.Compare) and len(e.ops) == 1:
            op, l, r = e.ops[0], e.left, e.comparators[0]
            if isinstance(op, (ast.In, ast.NotIn)):
                k = self.expr(l, env, hoist)
                d = self.expr(r, env, hoist)
                if isinstance(k, V) and k.ty == "Name" and isinstance(d, V) and d.ty == "Scope":
                    t = f"(σ.has {k.text})"
                elif isinstance(k, V) and k.ty == "Name" and isinstance(d, V) and d.ty == "Reg":
                    t = f"(registered.contains {k.text})"
                else:
                    raise TErr(f"membership test `{_src(e)}`")
                return V(t if isinstance(op, ast.In) else f"(!{t})", "Bool")
            if isinstance(op, (ast.Is, ast.IsNot)):
                a = self.expr(l, env, hoist)
                if isinstance(r, ast.Constant) and r.value is None and isinstance(a, V) and a.ty in ("OptNat", "OptName"):
                    if a.text in env.some:
                        return V("true" if isinstance(op, ast.IsNot) else "false", "Bool")
                    return V(f"{a.text}.isSome" if isinstance(op, ast.IsNot) else f"{a.text}.isNone", "Bool")
                raise TErr(f"identity test `{_src(e)}`")
            sym = {ast.Lt: "<", ast.Gt: ">", ast.LtE: "≤", ast.GtE: "≥", ast.Eq: "=", ast.NotEq: "≠"}.get(type(op))
            if sym is None:
                raise TErr(f"comparison `{_src(e)}`")
            a = self.opt_value(self.expr(l, env, hoist), env, l)
            b = self.opt_value(self.expr(r, env, hoist), env, r)
            if a.ty == "Nat" and b.ty == "Nat":
                return V(f"decide ({a.text} {sym} {b.text})", "Bool")
            return V(f"decide ({self.to_int(a)} {sym} {self.to_int(b)})", "Bool")
        raise TErr(f"expression `{_src(e)}`")

    def opt_value(self, v, env: Env, node):
        """an Option used as a number / name is only readable where a test showed it is not None"""
        if isinstance(v, V) and v.ty in ("OptNat", "OptName"):
            if v.text in env.some:
                return V(env.some[v.text], "Nat" if v.ty == "OptNat" else "Name")
            raise TErr(f"`{_src(node)}` may be None here")
        if not isinstance(v, V):
            raise TErr(f"`{_src(node)}` is an object, not a value")
        return v

    @staticmethod
    def is_dtype_test(e) -> bool:
        """`self.DTYPES and tensor.dtype not in self.DTYPES`"""
        return (isinstance(e, ast.BoolOp) and isinstance(e.op, ast.And) and len(e.values) == 2 and _src(e.values[0]) == "self.DTYPES"
                and _src(e.values[1]) == "tensor.dtype not in self.DTYPES")

    # ---- hoisted partial operations ---------------------------------------------------------------
    def wrap(self, hoist: list, inner: str, ind: str) -> str:
        out = inner
        for h in reversed(hoist):
            kind = h[0]
            if kind == "index":
                _, base, idx, nm = h
                out = f"match pyIndex {base} {idx} with\n{ind}| none => .pyExc .indexError\n{ind}| some {nm} =>\n{ind}  " + P(out.replace("\n", "\n  "))
            elif kind == "setdefault":
                _, k, v, nm = h
                out = f"match Scope.setdefault σ {k} {v} with\n{ind}| ({nm}, σ) =>\n{ind}  " + P(out.replace("\n", "\n  "))
            elif kind == "get":
                _, k, _n, nm = h
                out = f"match σ.get? {k} with\n{ind}| none => .unmodelled\n{ind}| some {nm} =>\n{ind}  " + P(out.replace("\n", "\n  "))
        return out

    # ---- raise -------------------------------------------------------------------------------------
    def report(self, call, env: Env, hoist: list) -> str:
        if not (isinstance(call, ast.Call) and isinstance(call.func, ast.Attribute) and _src(call.func.value) == "_errors" and not call.args):
            raise TErr(f"raise of `{_src(call)}`")
        kw = {k.arg: k.value for k in call.keywords}
        cls = call.func.attr

        def need(*names):
            if set(kw) != set(names):
                raise TErr(f"{cls}: keywords {sorted(kw)} (expected {sorted(names)})")

        if cls == "DLTypeShapeError":
            need("tensor_name", "index", "expected_shape", "actual")
            n = self.expr(kw["tensor_name"], env, hoist)
            i = self.expr(kw["index"], env, hoist)
            x = self.expr(kw["expected_shape"], env, hoist)
            a = self.expr(kw["actual"], env, hoist)
            return f".reject (.shape {n.text} {self.to_nat(i)} {self.to_int(x)} {self.to_int(a)})"
        if cls == "DLTypeNDimsError":
            need("expected", "actual", "tensor_name")
            n = self.expr(kw["tensor_name"], env, hoist)
            x = self.expr(kw["expected"], env, hoist)
            a = self.expr(kw["actual"], env, hoist)
            return f".reject (.ndims {n.text} {self.to_int(x)} {self.to_nat(a)})"
        if cls == "DLTypeDtypeError":
            need("expected", "received", "tensor_name")
            if _src(kw["expected"]) != "self.DTYPES" or _src(kw["received"]) != "{tensor.dtype}":
                raise TErr(f"DLTypeDtypeError arguments `{_src(call)}`")
            return f".reject (.dtype {self.expr(kw['tensor_name'], env, hoist).text})"
        if cls == "DLTypeDuplicateError":
            need("tensor_name")
            return f".reject (.duplicate {self.expr(kw['tensor_name'], env, hoist).text})"
        if cls == "DLTypeInvalidReferenceError":
            need("tensor_name", "missing_ref", "current_context")
            n = self.expr(kw["tensor_name"], env, hoist)
            m = self.expr(kw["missing_ref"], env, hoist)
            c = self.expr(kw["current_context"], env, hoist)
            if m.ty != "Name" or c.ty != "Scope":
                raise TErr(f"DLTypeInvalidReferenceError arguments `{_src(call)}`")
            return f".reject (.invalidRef {n.text} {m.text} σ.keys)"
        raise TErr(f"raise of `{cls}`")

    # ---- statements --------------------------------------------------------------------------------
    def block(self, stmts, i, env: Env, kont, ind: str) -> str:
        if i == len(stmts):
            return kont(env, ind)
        s = stmts[i]

        def rest(env2, ind2=ind):
            return self.block(stmts, i + 1, env2, kont, ind2)

        if isinstance(s, ast.Expr) and isinstance(s.value, ast.Constant) and isinstance(s.value.value, str):
            return rest(env)
        if isinstance(s, ast.Expr) and isinstance(s.value, ast.Call) and _src(s.value.func).startswith("_logger."):
            return rest(env)
        if isinstance(s, ast.Assign) and len(s.targets) == 1 and isinstance(s.targets[0], ast.Name) and s.targets[0].id == "__tracebackhide__":
            return rest(env)
        if isinstance(s, ast.Continue):
            # `continue` = the end of the loop body (NOT the statements that follow the enclosing `if`)
            return self.loop_k(env, ind)
        if isinstance(s, ast.Raise):
            hoist: list = []
            r = self.report(s.exc, env, hoist)
            return self.wrap(hoist, r, ind)
        if isinstance(s, ast.If):
            # `if x is not None:` binds the value of x in the branch
            t = s.test
            if isinstance(t, ast.Compare) and len(t.ops) == 1 and isinstance(t.ops[0], ast.IsNot) and isinstance(t.comparators[0], ast.Constant) and t.comparators[0].value is None:
                o = self.expr(t.left, env, [])
                if isinstance(o, V) and o.ty in ("OptNat", "OptName") and o.text not in env.some:
                    self.fresh += 1
                    nm = f"v{self.fresh}"
                    e1, e2 = env.copy(), env.copy()
                    e1.some[o.text] = nm
                    b = self.block(s.body, 0, e1, lambda e, i2: self.block(stmts, i + 1, self.forget(e, o.text, env), kont, i2), ind + "  ")
                    o2 = self.block(s.orelse, 0, e2, lambda e, i2: self.block(stmts, i + 1, e, kont, i2), ind + "  ")
                    return f"match {o.text} with\n{ind}| some {nm} =>\n{ind}  {P(b)}\n{ind}| none =>\n{ind}  {P(o2)}"
            hoist = []
            c = self.to_bool(self.expr(t, env, hoist))
            b = self.block(s.body, 0, env.copy(), lambda e, i2: self.block(stmts, i + 1, e, kont, i2), ind + "  ")
            o2 = self.block(s.orelse, 0, env.copy(), lambda e, i2: self.block(stmts, i + 1, e, kont, i2), ind + "  ")
            return self.wrap(hoist, f"if {c} then\n{ind}  {P(b)}\n{ind}else\n{ind}  {P(o2)}", ind)
        if isinstance(s, ast.AugAssign) and isinstance(s.target, ast.Name) and isinstance(s.op, (ast.Add, ast.Sub)):
            hoist = []
            x = s.target.id
            cur = self.expr(s.target, env, hoist)
            val = self.opt_value(self.expr(s.value, env, hoist), env, s.value)
            if isinstance(s.op, ast.Add) and cur.ty == "Nat" and val.ty == "Nat":
                new = V(f"({cur.text} + {val.text})", "Nat")
            else:
                new = V(f"({self.to_int(cur)} {'+' if isinstance(s.op, ast.Add) else '-'} {self.to_int(val)})", "Int")
            env = env.copy()
            env.vars[x] = V(x, new.ty)
            return self.wrap(hoist, f"let {x} := {new.text}\n{ind}" + rest(env), ind)
        if isinstance(s, ast.Try):
            return self.try_evaluate(s, env, rest, ind)
        if isinstance(s, ast.Assign) and len(s.targets) == 1:
            tg, val = s.targets[0], s.value
            hoist = []
            if isinstance(tg, ast.Subscript):
                d = self.expr(tg.value, env, hoist)
                k = self.expr(tg.slice, env, hoist)
                if isinstance(d, V) and d.ty == "Scope" and isinstance(k, V) and k.ty == "Name":
                    v = self.opt_value(self.expr(val, env, hoist), env, val)
                    return self.wrap(hoist, f"let σ := σ.set {k.text} {self.to_int(v)}\n{ind}" + rest(env), ind)
                if isinstance(d, V) and d.ty == "Reg" and isinstance(k, V) and k.ty == "Name":
                    v = self.expr(val, env, hoist)
                    if not (isinstance(v, V) and v.ty == "Dtype"):
                        raise TErr(f"`{_src(s)}`: the registry of checked names stores the dtype")
                    return self.wrap(hoist, f"let registered := registered ++ [{k.text}]\n{ind}" + rest(env), ind)
                raise TErr(f"assignment `{_src(s)}`")
            if isinstance(tg, ast.Name):
                x = tg.id
                if isinstance(val, ast.Call) and _src(val.func).endswith("._hinted_tensors.popleft") and not val.args:
                    env = env.copy()
                    env.objs[x] = Obj("entry", "e")
                    return rest(env)
                if isinstance(val, ast.Call) and isinstance(val.func, ast.Attribute) and val.func.attr == "get_expected_shape" and len(val.args) == 1:
                    o = self.expr(val.func.value, env, hoist)
                    a = self.expr(val.args[0], env, hoist)
                    if isinstance(o, Obj) and o.kind == "entry" and isinstance(a, Obj) and a.kind == "tensor" and a.base == f"{o.base}.tensor":
                        env = env.copy()
                        env.vars[x] = V(x, "Dims")
                        return f"let {x} := expandDims {o.base}.ann {o.base}.tensor.shape\n{ind}" + rest(env)
                    raise TErr(f"`{_src(s)}`")
                v = self.expr(val, env, hoist)
                env = env.copy()
                if isinstance(v, Obj):
                    env.objs[x] = v
                    return self.wrap(hoist, rest(env), ind)
                if v.ty in ("OptNat", "OptName"):
                    v = self.opt_value(v, env, val)
                env.vars[x] = V(x, v.ty)
                return self.wrap(hoist, f"let {x} := {v.text}\n{ind}" + rest(env), ind)
        if isinstance(s, ast.Expr) and isinstance(s.value, ast.Call) and isinstance(s.value.func, ast.Attribute):
            c = s.value
            if c.func.attr == "check" and len(c.args) == 1 and [k.arg for k in c.keywords] == ["tensor_name"]:
                o = self.expr(c.func.value, env, [])
                a = self.expr(c.args[0], env, [])
                n = self.expr(c.keywords[0].value, env, [])
                if isinstance(o, Obj) and o.kind == "ann" and isinstance(a, Obj) and a.kind == "tensor" and isinstance(n, V) and n.ty == "Name":
                    return f"match check acc {o.base} {a.base} {n.text} with\n{ind}| .ok () =>\n{ind}  {P(rest(env, ind + '  '))}\n{ind}" + PROP.format(ind=ind)
            if c.func.attr == "_assert_tensor_shape" and len(c.args) == 3 and not c.keywords:
                n = self.expr(c.args[0], env, [])
                d = self.expr(c.args[1], env, [])
                a = self.expr(c.args[2], env, [])
                if isinstance(n, V) and n.ty == "Name" and isinstance(d, V) and d.ty == "Dims" and isinstance(a, Obj) and a.kind == "tensor":
                    return f"match assertDims {n.text} 0 {d.text} {a.base}.shape σ with\n{ind}| .ok σ =>\n{ind}  {P(rest(env, ind + '  '))}\n{ind}" + PROP.format(ind=ind)
        raise TErr(f"statement `{_src(s)[:120]}`")

    @staticmethod
    def forget(e: Env, key: str, outer: Env) -> Env:
        e2 = e.copy()
        if key not in outer.some:
            e2.some.pop(key, None)
        return e2

    def try_evaluate(self, s: ast.Try, env: Env, rest, ind: str) -> str:
        """try: x = dim.evaluate(scope)  except KeyError as e: missing = e.args[0]; raise InvalidReference(...) from e"""
        ok = (len(s.body) == 1 and isinstance(s.body[0], ast.Assign) and len(s.body[0].targets) == 1 and isinstance(s.body[0].targets[0], ast.Name)
              and isinstance(s.body[0].value, ast.Call) and isinstance(s.body[0].value.func, ast.Attribute) and s.body[0].value.func.attr == "evaluate"
              and len(s.body[0].value.args) == 1 and not s.orelse and not s.finalbody and len(s.handlers) == 1)
        if not ok:
            raise TErr(f"try statement `{_src(s)[:100]}`")
        call = s.body[0].value
        d = self.expr(call.func.value, env, [])
        sc = self.expr(call.args[0], env, [])
        h = s.handlers[0]
        if not (isinstance(d, Obj) and d.kind == "dim" and isinstance(sc, V) and sc.ty == "Scope" and isinstance(h.type, ast.Name) and h.type.id == "KeyError" and h.name):
            raise TErr(f"try statement `{_src(s)[:100]}`")
        x = s.body[0].targets[0].id
        henv = env.copy()
        body = list(h.body)
        # missing_ref = e.args[0]
        if body and isinstance(body[0], ast.Assign) and isinstance(body[0].targets[0], ast.Name) and _src(body[0].value) == f"{h.name}.args[0]":
            henv.vars[body[0].targets[0].id] = V("k", "Name")
            body = body[1:]
        if len(body) != 1 or not isinstance(body[0], ast.Raise):
            raise TErr(f"except handler `{_src(h)[:100]}`")
        hh: list = []
        rep = self.report(body[0].exc, henv, hh)
        if hh:
            raise TErr("partial operation inside an except handler")
        env2 = env.copy()
        env2.vars[x] = V(x, "Int")
        return (f"match {d.base}.evaluate σ with\n{ind}| .keyError k => {rep}\n{ind}| .pyExc x => .pyExc x\n{ind}| .unmodelled => .unmodelled\n"
                f"{ind}| .val {x} =>\n{ind}  {P(rest(env2, ind + '  '))}")


# ---- finding the functions -----------------------------------------------------------------------------


def _find_method(mod: ast.Module, cls: str, name: str) -> ast.FunctionDef:
    for n in mod.body:
        if isinstance(n, ast.ClassDef) and n.name == cls:
            for m in n.body:
                if isinstance(m, ast.FunctionDef) and m.name == name:
                    return m
    raise TErr(f"{cls}.{name} not found")


def _strip(stmts):
    return [s for s in stmts if not (isinstance(s, ast.Expr) and isinstance(s.value, ast.Constant) and isinstance(s.value.value, str))]


SKELETONS = """/-- loop skeleton (fixed text): `for idx, dim in self._literal_dims` -/
def checkLiterals (ann : Ann) (t : Tensor) (tname : Name) : List (Nat × Int) → Outcome Unit
  | [] => .ok ()
  | (idx, dim) :: rest =>
    match literalStep ann t tname idx dim with
    | .ok () => checkLiterals ann t tname rest
    | .reject r => .reject r
    | .pyExc x => .pyExc x
    | .unmodelled => .unmodelled

/-- `TensorTypeBase.check` = head, then the loop -/
def check (acc : Acc) (ann : Ann) (t : Tensor) (tname : Name) : Outcome Unit :=
  match checkHead acc ann t tname with
  | .ok () => checkLiterals ann t tname ann.literalDims
  | .reject r => .reject r
  | .pyExc x => .pyExc x
  | .unmodelled => .unmodelled

/-- loop skeleton (fixed text): `for dim_idx, dimension_expression in enumerate(expected_shape)` with `actual_shape[dim_idx]`
    read as the element of the actual shape at the same position -/
def assertDims (tname : Name) : Nat → List DimExpr → List Nat → Scope → Outcome Scope
  | _, [], _, σ => .ok σ
  | _, _ :: _, [], σ => .ok σ
  | idx, d :: ds, a :: as, σ =>
    match dimStep tname idx d a σ with
    | .ok σ' => assertDims tname (idx + 1) ds as σ'
    | .reject r => .reject r
    | .pyExc x => .pyExc x
    | .unmodelled => .unmodelled

"""


QUEUE_SKELETON = """/-- loop skeleton (fixed text): `while self._hinted_tensors: tensor_context = self._hinted_tensors.popleft(); ...` -/
def runEntries (acc : Acc) : CState → List Entry → Outcome CState
  | st, [] => .ok st
  | st, e :: es =>
    match tensorBody acc st.σ st.registered e with
    | .ok st' => runEntries acc st' es
    | .reject r => .reject r
    | .pyExc x => .pyExc x
    | .unmodelled => .unmodelled

"""


def gen_core(lib_dir: str, header: str) -> str:
    def parse(f):
        with open(os.path.join(lib_dir, f)) as fh:
            return ast.parse(fh.read(), filename=f)

    ctx_mod, ttb_mod = parse("_dltype_context.py"), parse("_tensor_type_base.py")

    # 1. _assert_tensor_shape -----------------------------------------------------------------------
    f = _find_method(ctx_mod, "DLTypeContext", "_assert_tensor_shape")
    if [a.arg for a in f.args.args] != ["self", "tensor_arg_name", "expected_shape", "tensor"]:
        raise TErr("_assert_tensor_shape: parameters")
    body = _strip(f.body)
    pre, loop = body[:-1], body[-1]
    pre = [s for s in pre if not (isinstance(s, ast.Assign) and _src(s.targets[0]) == "__tracebackhide__")]
    if not (len(pre) == 1 and _src(pre[0]) == "actual_shape = tuple(tensor.shape)"):
        raise TErr("_assert_tensor_shape: statements before the loop: " + "; ".join(_src(s) for s in pre)[:120])
    if not (isinstance(loop, ast.For) and _src(loop.iter) == "enumerate(expected_shape)" and isinstance(loop.target, ast.Tuple) and len(loop.target.elts) == 2
            and all(isinstance(x, ast.Name) for x in loop.target.elts) and not loop.orelse):
        raise TErr("_assert_tensor_shape: the loop is not `for i, d in enumerate(expected_shape)`")
    c = Comp(lambda e, ind: ".ok σ")
    env = Env()
    env.mode, env.enum_index = "enumerate", loop.target.elts[0].id
    env.vars[loop.target.elts[0].id] = V("idx", "Nat")
    env.objs[loop.target.elts[1].id] = Obj("dim", "d")
    env.objs["self"] = Obj("ctx", "self")
    env.vars["tensor_arg_name"] = V("tname", "Name")
    env.vars["actual_shape"] = V("ACTUAL", "Shape")
    dim_step = c.block(loop.body, 0, env, lambda e, ind: ".ok σ", "  ")

    # 2. check ----------------------------------------------------------------------------------------
    f = _find_method(ttb_mod, "TensorTypeBase", "check")
    if [a.arg for a in f.args.args] != ["self", "tensor", "tensor_name"]:
        raise TErr("check: parameters")
    body = _strip(f.body)
    head, loop = body[:-1], body[-1]
    if not (isinstance(loop, ast.For) and _src(loop.iter) == "self._literal_dims" and isinstance(loop.target, ast.Tuple) and len(loop.target.elts) == 2
            and all(isinstance(x, ast.Name) for x in loop.target.elts) and not loop.orelse):
        raise TErr("check: the last statement is not `for idx, dim in self._literal_dims`")
    c = Comp(lambda e, ind: ".ok ()")
    env = Env()
    env.objs["self"] = Obj("ann", "ann")
    env.objs["tensor"] = Obj("tensor", "t")
    env.vars["tensor_name"] = V("tname", "Name")
    check_head = c.block(head, 0, env, lambda e, ind: ".ok ()", "  ")
    env2 = env.copy()
    env2.vars[loop.target.elts[0].id] = V("idx", "Nat")
    env2.vars[loop.target.elts[1].id] = V("dim", "Int")
    literal_step = c.block(loop.body, 0, env2, lambda e, ind: ".ok ()", "  ")

    # 3. assert_context -------------------------------------------------------------------------------
    f = _find_method(ctx_mod, "DLTypeContext", "assert_context")
    body = [s for s in _strip(f.body) if not (isinstance(s, ast.Assign) and _src(s.targets[0]) in ("__tracebackhide__", "start_t"))]
    if not (len(body) == 1 and isinstance(body[0], ast.Try) and len(body[0].body) == 1 and isinstance(body[0].body[0], ast.While)
            and _src(body[0].body[0].test) == "self._hinted_tensors" and not body[0].handlers):
        raise TErr("assert_context: expected `try: while self._hinted_tensors: ... finally: ...`")
    fin = body[0].finalbody
    for s in ast.walk(ast.Module(body=fin, type_ignores=[])):
        if isinstance(s, (ast.Return, ast.Break, ast.Continue)):
            raise TErr("assert_context: the `finally` block leaves with return / break / continue (it would swallow the error)")
    w = body[0].body[0]
    c = Comp(lambda e, ind: ".ok { σ := σ, registered := registered }")
    env = Env()
    env.objs["self"] = Obj("ctx", "self")
    tensor_body = c.block(w.body, 0, env, lambda e, ind: ".ok { σ := σ, registered := registered }", "  ")

    out = header
    out += "import DltypeModel.Context\nset_option linter.unusedVariables false\nnamespace Dltype.Gen\nopen Dltype\n\n"
    out += "/-- Python indexing of a shape: a negative index counts from the end, out of range is IndexError (`none`) -/\n"
    out += "def pyIndex (s : List Nat) (i : Int) : Option Nat :=\n  if i < 0 then (if -i ≤ Int.ofNat s.length then s[(Int.ofNat s.length + i).toNat]? else none) else s[i.toNat]?\n\n"
    out += "/-- `x = d.setdefault(k, v)`: the value now bound and the dict afterwards -/\n"
    out += "def _root_.Dltype.Scope.setdefault (σ : Scope) (k : Name) (v : Int) : Int × Scope :=\n  match σ.get? k with\n  | some b => (b, σ)\n  | none => (v, σ.set k v)\n\n"
    out += "/-- the body of the loop of `DLTypeContext._assert_tensor_shape` (one dimension of the expected shape against the axis at the same index) -/\n"
    out += "def dimStep (tname : Name) (idx : Nat) (d : DimExpr) (actual : Nat) (σ : Scope) : Outcome Scope :=\n  " + dim_step + "\n\n"
    out += "/-- `TensorTypeBase.check` up to its loop -/\n"
    out += "def checkHead (acc : Acc) (ann : Ann) (t : Tensor) (tname : Name) : Outcome Unit :=\n  " + check_head + "\n\n"
    out += "/-- the body of the loop of `TensorTypeBase.check` over the literal axes -/\n"
    out += "def literalStep (ann : Ann) (t : Tensor) (tname : Name) (idx : Nat) (dim : Int) : Outcome Unit :=\n  " + literal_step + "\n\n"
    out += SKELETONS
    out += "/-- the body of the `while` loop of `DLTypeContext.assert_context` for the queue entry `e` -/\n"
    out += "def tensorBody (acc : Acc) (σ : Scope) (registered : List Name) (e : Entry) : Outcome CState :=\n  " + tensor_body + "\n\n"
    out += QUEUE_SKELETON
    out += "end Dltype.Gen\n"
    return out
