"""Execute operation lines on the real dltype code and print the driver's result syntax.

Every function takes the tab-split fields of one operation line and returns one result line, in
exactly the syntax `lean/Driver.lean` prints for the model.
"""
from __future__ import annotations

import warnings

from common import import_repo

dltype = import_repo()
from dltype._lib import _parser  # noqa: E402

warnings.simplefilter("ignore")
import sys as _sys  # noqa: E402

_sys.set_int_max_str_digits(0)


def show_item(x) -> str:
    if isinstance(x, bool):
        return repr(x)
    if isinstance(x, int):
        return str(x)
    if isinstance(x, str):
        return f"'{x}'"
    return repr(x)


def b(x) -> str:
    return "1" if x else "0"


def show_dim(d) -> str:
    return (
        f"id={d.identifier} post=[{','.join(show_item(t) for t in d.parsed_expression)}] flags="
        + b(d.is_literal)
        + b(d.is_identifier)
        + b(d.is_expression)
        + b(d.is_anonymous)
        + b(d.is_named_multiaxis)
        + b(d.is_multiaxis_literal)
    )


def exc_line(e: BaseException) -> str:
    if isinstance(e, SyntaxError):
        return "err SyntaxError"
    return "pyexc " + type(e).__name__


def op_parse(s: str) -> str:
    try:
        d = _parser.expression_from_string(s)
    except Exception as e:  # noqa: BLE001
        return exc_line(e)
    return "ok " + show_dim(d)


def parse_scope(s: str) -> dict[str, int]:
    if not s:
        return {}
    out = {}
    for kv in s.split(";"):
        k, v = kv.split(":")
        if v.endswith("n"):
            # a size that is an integer but not a Python `int`: what np.prod / .max() / indexing an integer array hands back
            import numpy as np

            out[k] = np.int64(int(v[:-1]))
        else:
            out[k] = int(v)
    return out


def show_scope(d: dict) -> str:
    return ";".join(f"{k}:{v}" for k, v in d.items())


def op_eval(s: str, scope: str) -> str:
    try:
        d = _parser.expression_from_string(s)
    except Exception as e:  # noqa: BLE001
        return exc_line(e)
    sc = parse_scope(scope)
    try:
        v = d.evaluate(sc)
    except KeyError as e:
        return f"key {e.args[0]}"
    except Exception as e:  # noqa: BLE001
        return "pyexc " + type(e).__name__
    return f"val {v}"


def op_evalseq(s: str, scopes: str) -> str:
    """one expression object, evaluated under several scopes in turn"""
    try:
        d = _parser.expression_from_string(s)
    except Exception as e:  # noqa: BLE001
        return exc_line(e)
    outs = []
    for scope in scopes.split("|"):
        try:
            outs.append(f"val {d.evaluate(parse_scope(scope))}")
        except KeyError as e:
            outs.append(f"key {e.args[0]}")
        except Exception as e:  # noqa: BLE001
            outs.append("pyexc " + type(e).__name__)
    return " ## ".join(outs)


def opt_shape(s: str):
    return None if s == "<None>" else s


def show_ann(a) -> str:
    return (
        f"n={len(a.expected_shape)} mi={'-' if a.multiaxis_index is None else a.multiaxis_index}"
        f" mname={'-' if a.multiaxis_name is None else a.multiaxis_name} anon={b(a.anonymous_multiaxis)}"
        f" lits={','.join(f'{i}:{v}' for i, v in a._literal_dims)}"
        f" dims={'|'.join(show_dim(d) for d in a.expected_shape)}"
    )


def op_shape(s: str) -> str:
    try:
        a = dltype.TensorTypeBase(opt_shape(s))
    except Exception as e:  # noqa: BLE001
        return exc_line(e)
    return "ok " + show_ann(a)


# ---------------------------------------------------------------------------------------------
# tensors, annotations, contexts
# ---------------------------------------------------------------------------------------------

_DTYPES = None
_ARR_CACHE: dict = {}


def dtypes():
    """(lib, name, zero-size array, category) in the order of `Generated/DtypeTables.lean`."""
    global _DTYPES
    if _DTYPES is None:
        import translate

        _DTYPES = translate.enumerate_dtypes()
    return _DTYPES


_DT_BY_NAME: dict = {}


def dt_code(name: str) -> int:
    """`lib:name` -> index in the dtype enumeration"""
    if not _DT_BY_NAME:
        for i, (lib, nm, _a, _c) in enumerate(dtypes()):
            _DT_BY_NAME[f"{lib}:{nm}"] = i
    return _DT_BY_NAME[name]


def make_tensor(code, shape: tuple[int, ...]):
    if isinstance(code, str):
        code = dt_code(code)
    key = (code, shape)
    t = _ARR_CACHE.get(key)
    if t is not None:
        return t
    lib, _nm, proto, _cat = dtypes()[code]
    if lib == 0:
        import numpy as np

        t = np.zeros(shape, dtype=proto.dtype)
    elif lib == 1:
        import torch

        t = torch.empty(shape, dtype=proto.dtype)
    else:
        import jax
        import numpy as np

        t = jax.device_put(np.zeros(shape, dtype=proto.dtype))  # no XLA compilation per shape
    if len(_ARR_CACHE) < 200000:
        _ARR_CACHE[key] = t
    return t


def parse_dims(s: str) -> tuple[int, ...]:
    return tuple(int(x) for x in s.split(".")) if s else ()


class Other:
    """a value that is neither None, an array nor a tuple"""

    def __repr__(self):
        return "Other()"


def parse_value(s: str):
    if s == "N":
        return None
    f = s.split(",")
    if f[0] == "T":
        return make_tensor(f[1], parse_dims(f[2]))
    # values that are neither None nor an array, for positions without annotation — some of them sequences themselves (a shape, an empty
    # tuple, a tuple / list OF arrays): they are one value of one position, whatever they contain
    if s == "XT":
        return (2, 3)
    if s == "XE":
        return ()
    if s == "XA":
        return (make_tensor("0:float32", (2,)), make_tensor("0:float32", (2,)))
    if s == "XL":
        return [make_tensor("0:float32", (3,))]
    return 5


_CLASSES = None


def class_by_name(n: str):
    """`Cls` -> the exported class; `Cls!` -> the class with the constructor flag optional=True pre-set"""
    if n.endswith("!"):
        import functools

        return functools.partial(getattr(dltype, n[:-1]), optional=True)
    return getattr(dltype, n)


def parse_ann_spec(s: str):
    """`-` -> None ; `cls,opt,shape` -> annotation object (may raise)"""
    if s == "-":
        return None
    cls, opt, shape = s.split(",", 2)
    return class_by_name(cls)(opt_shape(shape), optional=(opt == "1"))


def _msg_ok(e, *needles) -> str:
    """the MESSAGE of the error (what a user reads) must carry the same facts as the attributes the report is built from"""
    try:
        m = str(e)
    except Exception as x:  # noqa: BLE001
        return f" msg-mismatch(str() raises {type(x).__name__})"
    import re

    for n in needles:
        if not re.search(r"(?<![A-Za-z0-9_\[\]])" + re.escape(n) + r"(?![A-Za-z0-9_\[])", m):
            return f" msg-mismatch({n!r} not in {m[:120]!r})"
    return ""


REPORT_TEXT = [False]   # (set by checks/c15.py: append a digest of the full message of every rejection that names no dtype / type)


def show_report(e) -> str:
    E = dltype
    if REPORT_TEXT[0] and isinstance(e, (E.DLTypeNDimsError, E.DLTypeShapeError, E.DLTypeInvalidReferenceError, E.DLTypeDuplicateError)):
        REPORT_TEXT[0] = False
        try:
            return show_report(e) + " text=" + str(e).replace("\t", " ").replace("\n", " ")
        finally:
            REPORT_TEXT[0] = True
    if isinstance(e, E.DLTypeNDimsError):
        return f"reject ndims tensor={e._tensor_name} expected={e._expected} actual={e._actual}" + _msg_ok(e, f"tensor={e._tensor_name}", f"ndims={e._expected}", f"actual={e._actual}")
    if isinstance(e, E.DLTypeDtypeError):
        return f"reject dtype tensor={e._tensor_name}" + _msg_ok(e, f"tensor={e._tensor_name}")
    if isinstance(e, E.DLTypeShapeError):
        return f"reject shape tensor={e._tensor_name} dim={e._index} expected={e._expected} actual={e._actual}" + _msg_ok(
            e, f"tensor={e._tensor_name}", f"dim={e._index}", f"expected={e._expected}", f"actual={e._actual}")
    if isinstance(e, E.DLTypeInvalidReferenceError):
        return f"reject invalidref tensor={e._tensor_name} missing={e._missing_ref} valid={','.join(e._context.keys())}" + _msg_ok(
            e, f"tensor={e._tensor_name}", f"missing_ref={e._missing_ref}")
    if isinstance(e, E.DLTypeDuplicateError):
        return f"reject duplicate tensor={e._tensor_name}" + _msg_ok(e, f"tensor={e._tensor_name}")
    if isinstance(e, E.DLTypeUnsupportedTensorTypeError):
        return "reject unsupported"
    if isinstance(e, E.DLTypeScopeProviderError):
        return "reject scopeprovider"
    if isinstance(e, E.DLTypeError):
        return "reject unknown-" + type(e).__name__
    if isinstance(e, SyntaxError):
        return "err SyntaxError"
    return "pyexc " + type(e).__name__


def split_semi(s: str) -> list[str]:
    return s.split(";") if s else []


def op_check(spec: str, dt: str, dims: str) -> str:
    try:
        ann = parse_ann_spec(spec)
    except Exception as e:  # noqa: BLE001
        return exc_line(e)
    t = make_tensor(dt, parse_dims(dims))
    try:
        ann.check(t)
    except Exception as e:  # noqa: BLE001
        return show_report(e)
    return "ok"


def op_ctx(scope: str, *cmds: str) -> str:
    from dltype._lib._dltype_context import DLTypeContext

    ctx = DLTypeContext()
    ctx.tensor_shape_map = parse_scope(scope)
    for c in cmds:
        f = c.split("|")
        try:
            if f[0] == "V":
                ctx.assert_context()
            elif f[0] == "A":
                try:
                    anns = tuple(parse_ann_spec(a) for a in split_semi(f[2]))
                except Exception as e:  # noqa: BLE001
                    return exc_line(e)
                ctx.add(f[1], tuple(parse_value(v) for v in split_semi(f[3])), anns)
            else:
                return "bad-op"
        except Exception as e:  # noqa: BLE001
            return show_report(e)
    return f"accept {show_scope(ctx.tensor_shape_map)} reg={','.join(ctx.registered_tensor_dtypes.keys())}"


def op_use(shape: str) -> str:
    """build the annotation, then use it on an array of matching rank with every identifier bound to 2"""
    from dltype._lib._dltype_context import DLTypeContext

    try:
        a = dltype.TensorTypeBase(opt_shape(shape))
    except Exception as e:  # noqa: BLE001
        return exc_line(e)
    names = []
    for d in a.expected_shape:
        for t in d.parsed_expression:
            if isinstance(t, str) and t not in names:
                names.append(t)
    ctx = DLTypeContext()
    ctx.tensor_shape_map = {n: 2 for n in names}
    rank = len(a.expected_shape) - (1 if a.multiaxis_index is not None else 0)
    t = make_tensor("0:float32", (2,) * rank)
    try:
        ctx.add("x", (t,), (a,))
        ctx.assert_context()
    except dltype.DLTypeError as e:
        return "reject " + show_report(e).split(" ")[1]
    except Exception as e:  # noqa: BLE001
        return "pyexc " + type(e).__name__
    return "accept"


HANDLERS = {"USE": op_use, "PARSE": op_parse, "EVAL": op_eval, "EVALSEQ": op_evalseq, "SHAPE": op_shape, "CHECK": op_check, "CTX": op_ctx}


def handle(line: str) -> str:
    f = line.split("\t")
    h = HANDLERS.get(f[0])
    if h is None:
        return "bad-op"
    try:
        return h(*f[1:])
    except Exception as e:  # noqa: BLE001  (the harness must survive whatever the tree under test does)
        return "harness-error " + type(e).__name__ + ": " + str(e)[:80]


def fresh_process(lines: list[str], timeout: int = 300) -> list[str] | None:
    """the same operation lines in ONE new interpreter (same tree under test, nothing else has run in it): what process-wide caches
    (typing's, functools.lru_cache, module-level tables) hold from earlier operations of this process cannot reach it"""
    import os
    import subprocess
    import sys

    here = os.path.dirname(os.path.abspath(__file__))
    code = ("import sys, warnings\nwarnings.simplefilter('ignore')\nsys.path.insert(0, %r)\nimport impl\n"
            "for m in ('impl_call', 'impl_hist', 'impl_pyd', 'impl_sym'):\n    __import__(m)\n"
            "for l in sys.stdin.read().split('\\n'):\n    if l:\n        print('OUT\\t' + impl.handle(l).replace('\\n', ' '), flush=True)\n") % here
    env = {k: v for k, v in os.environ.items() if k not in ("DLTYPE_VERIF_HEARTBEAT", "DLTYPE_VERIF_IMPL_LINES")}
    try:
        r = subprocess.run([sys.executable, "-c", code], input="\n".join(lines) + "\n", text=True, capture_output=True, timeout=timeout, env=env)
    except subprocess.TimeoutExpired:
        return None
    outs = [l[4:] for l in r.stdout.splitlines() if l.startswith("OUT\t")]
    return outs if len(outs) == len(lines) else None


def run_impl(lines: list[str]) -> list[str]:
    """Run every operation line on the real code.  Under the supervisor (main.py) the index of the line being run
    is published through a small memory-mapped file, so that an operation on which the tree under test never
    finishes (e.g. a regrouped power tower: one C call that holds the GIL, no in-process timer can fire) is
    reported by the supervisor as a failing input instead of hanging the check."""
    import mmap
    import os
    import struct

    hb = os.environ.get("DLTYPE_VERIF_HEARTBEAT")
    if not hb or not os.path.exists(hb):
        return [handle(l) for l in lines]
    with open(os.environ["DLTYPE_VERIF_IMPL_LINES"], "w") as f:
        f.write("\n".join(lines))
    out = []
    with open(hb, "r+b") as fh:
        mm = mmap.mmap(fh.fileno(), 16)
        try:
            for i, l in enumerate(lines):
                struct.pack_into("<qq", mm, 0, 1, i)
                out.append(handle(l))
        finally:
            struct.pack_into("<qq", mm, 0, 0, 0)
            mm.close()
    return out
