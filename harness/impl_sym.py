"""SYM operations on the real code: build the expression with the public symbolic classes and Python
operators, print it through Shape[...], parse the printed dimension and evaluate it."""
from __future__ import annotations

import re

import impl
from impl import dltype, parse_scope

TOK = re.compile(r"[(),]|[^(),]+")
BIN = {"add": lambda a, b: a + b, "sub": lambda a, b: a - b, "mul": lambda a, b: a * b, "div": lambda a, b: a // b, "exp": lambda a, b: a**b}


def parse_term(toks, i=0):
    """-> (tree, next index); tree = int | ('var', x) | (op, a, b) | (op, a) | ('const', name, n) | ('anon', name|None)"""
    t = toks[i]
    if i + 1 < len(toks) and toks[i + 1] == "(":
        args = []
        j = i + 2
        if toks[j] == ")":
            return (t,), j + 1
        while True:
            a, j = parse_term(toks, j)
            args.append(a)
            if toks[j] == ",":
                j += 1
                continue
            if toks[j] == ")":
                return (t, *args), j + 1
            raise ValueError("bad term")
    if re.fullmatch(r"-?\d+", t):
        return int(t), i + 1
    return ("var", t), i + 1


def build(t):
    """evaluate the term with the real classes (Python's operators do the dispatch)"""
    if isinstance(t, int):
        return t
    k = t[0]
    if k == "var":
        return dltype.VariableAxis(t[1])
    if k == "const":
        return dltype.ConstantAxis(t[1][1], t[2])
    if k == "anon":
        return dltype.AnonymousAxis(t[1][1] if len(t) > 1 else ...)
    if k in BIN:
        a, b = build(t[1]), build(t[2])
        if isinstance(a, int) and isinstance(b, int):
            a = dltype.LiteralAxis(a)
        return BIN[k](a, b)
    if k == "min":
        return dltype.Min(build(t[1]), build(t[2]))
    if k == "max":
        return dltype.Max(build(t[1]), build(t[2]))
    if k == "isqrt":
        return dltype.ISqrt(build(t[1]))
    if k == "grp":
        return dltype.Group(build(t[1]))
    raise ValueError(k)


def op_sym(tree: str, scope: str) -> str:
    from dltype._lib import _parser

    toks = TOK.findall(tree)
    t, j = parse_term(toks)
    if j != len(toks):
        return "bad-op"
    try:
        axis = build(t)
        s = str(dltype.Shape[axis])
    except ZeroDivisionError:
        return "printerr ZeroDivisionError"
    except TypeError:
        return "printerr TypeError"
    except ValueError:
        return "printerr ValueError"
    except Exception as e:  # noqa: BLE001
        return "printerr " + type(e).__name__
    sc = parse_scope(scope)
    try:
        d = _parser.expression_from_string(s)
    except SyntaxError:
        return f"str={s} err SyntaxError"
    try:
        v = d.evaluate(sc)
    except KeyError as e:
        return f"str={s} key {e.args[0]}"
    except Exception as e:  # noqa: BLE001
        return f"str={s} pyexc {type(e).__name__}"
    return f"str={s} val {v}"


def op_symshape(axes: str) -> str:
    """Shape[...] with several entries, then the annotation built from it"""
    ents = []
    try:
        for a in axes.split(";"):
            if a == "...":
                ents.append(...)
            elif a.startswith("anon("):
                ents.append(dltype.AnonymousAxis(a[5:-1]))
            elif a.startswith("const("):
                k, n = a[6:-1].split(",")
                ents.append(dltype.ConstantAxis(k, int(n)))
            else:
                toks = TOK.findall(a)
                t, j = parse_term(toks)
                if j != len(toks):
                    return "bad-op"
                x = build(t)
                ents.append(x)
        shape = dltype.Shape[tuple(ents)] if len(ents) != 1 else dltype.Shape[ents[0]]
        s = str(shape)
    except ZeroDivisionError:
        return "printerr ZeroDivisionError"
    except TypeError:
        return "printerr TypeError"
    except ValueError:
        return "printerr ValueError"
    try:
        ann = dltype.TensorTypeBase[shape]
    except Exception as e:  # noqa: BLE001
        return f"str={s} => " + impl.exc_line(e)
    # the same Shape object subscripted into several tensor classes, one after the other: each must be the annotation that the
    # class builds from the printed string
    diff = []
    for cn in ("FloatTensor", "IntTensor", "BoolTensor", "TensorTypeBase", "Float32Tensor", "FloatTensor"):
        cls = getattr(dltype, cn)
        try:
            a, b = cls[shape], cls[s]
            if type(a) is not type(b) or a.DTYPES != b.DTYPES or impl.show_ann(a) != impl.show_ann(b):
                diff.append(f"{cn}:{type(a).__name__}")
        except Exception as e:  # noqa: BLE001
            diff.append(f"{cn}:{type(e).__name__}")
    return f"str={s} => ok " + impl.show_ann(ann) + " same-as-string=" + ("1" if not diff else "0(" + ",".join(diff) + ")")


impl.HANDLERS["SYM"] = op_sym
impl.HANDLERS["SYMSHAPE"] = op_symshape
