"""Python-side specification oracles (independent of the Lean model and of the implementation).

They are used to judge the implementation's observable results against what the properties
demand, and by the failing-input search when a proof obligation or the correspondence broke.
"""
from __future__ import annotations

import re

import pyref

IDENT = re.compile(r"[A-Za-z][A-Za-z0-9_]*\Z")
RESERVED = {"min", "max", "isqrt"}


def tree_vars(t) -> list[str]:
    if t[0] == "var":
        return [t[1]]
    out = []
    for x in t[1:]:
        if isinstance(x, tuple):
            out += tree_vars(x)
    return out


def classify_dim(s: str):
    """Documented reading of one dimension string; None = outside the grammar."""
    if s == "...":
        return ("anon",)
    if s.startswith("*"):
        g = s[1:]
        return ("multi", g) if IDENT.match(g) and g not in RESERVED else None
    name = None
    body = s
    if "=" in s:
        name, body = s.split("=", 1)
        if not IDENT.match(name) or name in RESERVED:
            return None
    t = pyref.parse(body)
    if t is None:
        return None
    if any(v in RESERVED for v in tree_vars(t)):
        return None
    if name is not None:
        if name in tree_vars(t):
            return None
        if t[0] == "lit":
            return ("namedlit", name, t[1])
        return ("namedexpr", name, t)
    if t[0] == "lit":
        return ("lit", t[1], s)
    if t[0] == "var":
        return ("name", t[1])
    return ("expr", s, t)


def classify_shape(shape: str | None):
    """list of classified dims, or None if the shape string is outside the grammar"""
    if shape is None:
        return []
    parts = shape.split()
    if not parts:
        return None
    ds = [classify_dim(p) for p in parts]
    if any(d is None for d in ds):
        return None
    if sum(1 for d in ds if d[0] in ("anon", "multi")) > 1:
        return None
    return ds


class Ent:
    """one annotated, non-None tensor of a context in flattened source order"""

    def __init__(self, name: str, cls: int, shape: str | None, dtcode: int, dims: tuple[int, ...]):
        self.name, self.cls, self.shape, self.dtcode, self.dims = name, cls, shape, dtcode, dims


def align(ds, rank: int):
    """pairs (dim, axis index) for the non-marker dims and the (start, stop) absorbed by the marker; None = rank mismatch"""
    mi = next((i for i, d in enumerate(ds) if d[0] in ("anon", "multi")), None)
    if mi is None:
        if rank != len(ds):
            return None
        return [(d, i) for i, d in enumerate(ds)], None
    if rank < len(ds) - 1:
        return None
    n_abs = rank - (len(ds) - 1)
    pairs = [(d, i) for i, d in enumerate(ds[:mi])]
    pairs += [(d, mi + n_abs + j) for j, d in enumerate(ds[mi + 1 :])]
    return pairs, (mi, mi + n_abs)


def ev(t, sigma):
    """('val', n) | ('unbound', name) | ('undef',) | ('toobig',)"""
    try:
        return ("val", pyref.ev(t, sigma))
    except pyref.Undefined as e:
        k = e.args[0]
        return ("undef",) if k in ("div", "isqrt", "negexp") else ("unbound", k)
    except pyref.TooBig:
        return ("toobig",)


def spec_ctx(scope0: dict, ents: list[Ent], accepts):
    """Decide whether ONE common assignment exists (C01/C02).

    Returns (verdict, detail) with verdict in
      'conforms'  — the first-occurrence assignment satisfies every clause (and is the only candidate)
      'violates'  — no assignment can satisfy all clauses
      'silent'    — outside the documented grammar, or a name is used but never bound (assignment under-determined)
    detail['ordered'] tells whether every name inside an expression is bound by an earlier dimension or the provider,
    detail['arith'] whether all arithmetic is defined.
    """
    sigma = dict(scope0)
    detail = {"ordered": True, "arith": True, "why": ""}
    plans = []
    for e in ents:
        ds = classify_shape(e.shape)
        if ds is None:
            return "silent", {**detail, "why": f"shape of {e.name} outside the grammar"}
        al = align(ds, len(e.dims))
        if al is None:
            return "violates", {**detail, "why": f"rank of {e.name}"}
        if not accepts(e.cls, e.dtcode):
            return "violates", {**detail, "why": f"dtype of {e.name}"}
        pairs, absorbed = al
        plans.append((e, ds, pairs, absorbed))
        # first pass in source order (dimension order inside a tensor, marker positions in place)
        order = []
        mi = next((i for i, d in enumerate(ds) if d[0] in ("anon", "multi")), None)
        for d, ax in pairs:
            order.append((ax, d, None))
        if absorbed is not None and ds[mi][0] == "multi":
            for j, ax in enumerate(range(absorbed[0], absorbed[1])):
                order.append((ax, ("grp", ds[mi][1], j), None))
        order.sort(key=lambda x: x[0])
        for ax, d, _ in order:
            size = e.dims[ax]
            k = d[0]
            if k in ("expr", "namedexpr"):
                t = d[2]
                for v in tree_vars(t):
                    if v not in sigma:
                        detail["ordered"] = False
            key = None
            if k == "name":
                key = d[1]
            elif k in ("namedlit", "namedexpr"):
                key = d[1]
            elif k == "grp":
                key = f"{d[1]}[{d[2]}]"
            if key is not None and key not in sigma:
                sigma[key] = size
        if absorbed is not None and ds[mi][0] == "multi":
            sigma.setdefault("*" + ds[mi][1], absorbed[1] - absorbed[0])
    # verification pass under the one candidate assignment
    silent = None
    for e, ds, pairs, absorbed in plans:
        mi = next((i for i, d in enumerate(ds) if d[0] in ("anon", "multi")), None)
        for d, ax in pairs:
            size = e.dims[ax]
            k = d[0]
            if k == "lit" and size != d[1]:
                return "violates", {**detail, "why": f"{e.name} axis {ax}: literal {d[1]} vs {size}"}
            if k == "name" and sigma.get(d[1]) != size:
                return "violates", {**detail, "why": f"{e.name} axis {ax}: {d[1]}={sigma.get(d[1])} vs {size}"}
            if k == "namedlit" and (size != d[2] or sigma.get(d[1]) != size):
                return "violates", {**detail, "why": f"{e.name} axis {ax}: {d[1]}={d[2]} vs {size} (bound {sigma.get(d[1])})"}
            if k in ("expr", "namedexpr"):
                r = ev(d[2], sigma)
                if r[0] == "unbound":
                    silent = f"{e.name} axis {ax}: {r[1]} never bound"
                    continue
                if r[0] == "toobig":
                    silent = "too big"
                    continue
                if r[0] == "undef":
                    detail["arith"] = False
                    return "violates", {**detail, "why": f"{e.name} axis {ax}: arithmetic undefined"}
                if r[1] != size:
                    return "violates", {**detail, "why": f"{e.name} axis {ax}: expression value {r[1]} vs {size}"}
                if k == "namedexpr" and sigma.get(d[1]) != size:
                    return "violates", {**detail, "why": f"{e.name} axis {ax}: {d[1]} bound {sigma.get(d[1])} vs {size}"}
        if absorbed is not None and ds[mi][0] == "multi":
            g = ds[mi][1]
            if sigma.get("*" + g) != absorbed[1] - absorbed[0]:
                return "violates", {**detail, "why": f"{e.name}: group *{g} absorbs {absorbed[1] - absorbed[0]} axes vs {sigma.get('*' + g)}"}
            for j, ax in enumerate(range(absorbed[0], absorbed[1])):
                if sigma.get(f"{g}[{j}]") != e.dims[ax]:
                    return "violates", {**detail, "why": f"{e.name} axis {ax}: {g}[{j}]={sigma.get(f'{g}[{j}]')} vs {e.dims[ax]}"}
    if silent:
        return "silent", {**detail, "why": silent}
    return "conforms", {**detail, "sigma": sigma}


def spec_check(ds, cls: int, dtcode: int, dims: tuple[int, ...], accepts):
    """C03: expected verdict of the standalone check: ('ok',) | ('ndims', expected, actual) | ('dtype',) | ('shape', idx, expected, actual)"""
    rank = len(dims)
    al = align(ds, rank)
    if al is None:
        has_marker = any(d[0] in ("anon", "multi") for d in ds)
        return ("ndims", len(ds) - 1 if has_marker else len(ds), rank)
    if not accepts(cls, dtcode):
        return ("dtype",)
    pairs, _ = al
    for d, ax in sorted(pairs, key=lambda p: p[1]):
        lit = d[1] if d[0] == "lit" else d[2] if d[0] == "namedlit" else None
        if lit is not None and dims[ax] != lit:
            return ("shape", ax, lit, dims[ax])
    return ("ok",)


# ---------------------------------------------------------------------------------------------
# documented dtype table (C04): class name x category x library -> bool | None (no claim)
# ---------------------------------------------------------------------------------------------

_SIGNED = ["int8", "int16", "int32", "int64"]
_UNSIGNED = ["uint8", "uint16", "uint32", "uint64"]

DOCUMENTED = {
    "TensorTypeBase": None,  # anything
    "FloatTensor": ["float16", "bfloat16", "float32", "float64", "longdouble"],
    "Float16Tensor": ["float16", "bfloat16"],
    "IEEE754HalfFloatTensor": ["float16"],
    "BFloat16Tensor": ["bfloat16"],
    "Float32Tensor": ["float32"],
    "Float64Tensor": ["float64"],
    "DoubleTensor": ["float64"],
    "IntTensor": _SIGNED + _UNSIGNED,
    "SignedIntTensor": _SIGNED,
    "UnsignedIntTensor": _UNSIGNED,
    "Int8Tensor": ["int8"], "Int16Tensor": ["int16"], "Int32Tensor": ["int32"], "Int64Tensor": ["int64"],
    "UInt8Tensor": ["uint8"], "UInt16Tensor": ["uint16"], "UInt32Tensor": ["uint32"], "UInt64Tensor": ["uint64"],
    "BoolTensor": ["bool"],
}  # fmt: skip


def documented(cls_name: str, cat: str, lib: int):
    """True/False as documented; None where the documentation makes no claim (bfloat16 outside torch)."""
    cats = DOCUMENTED[cls_name]
    if cats is None:
        return True
    if cat == "bfloat16" and lib != 1:
        return None if "bfloat16" in cats else False
    return cat in cats


def make_accepts(meta):
    """accepts(cls index, dtype code) from the documented table and the dtype categories of Generated/DtypeTables.json"""

    cats = {f"{lib}:{nm}": (lib, cat) for lib, nm, cat in meta["dtypes"]}

    def accepts(cls: str, code: str):
        lib, cat = cats[code]
        r = documented(cls.rstrip("!"), cat, lib)
        return True if r is None else r

    return accepts
