"""A small independent reference reader/evaluator of the documented expression grammar (Python side).

Used by generators to keep arithmetic feasible (huge powers) and as a second opinion in searches.
Returns None for 'outside the grammar', raises Undefined for undefined arithmetic, TooBig for
values we refuse to compute.
"""
from __future__ import annotations

import math
import re

TOK = re.compile(r"\d+|[A-Za-z][A-Za-z0-9_]*|[-+*/^(),]")


class Undefined(Exception):
    pass


class TooBig(Exception):
    pass


def lex(s: str):
    pos, out = 0, []
    while pos < len(s):
        m = TOK.match(s, pos)
        if not m:
            return None
        out.append(m.group(0))
        pos = m.end()
    return out


class P:
    def __init__(self, toks, pow_right=False):
        self.t, self.i, self.pow_right = toks, 0, pow_right

    def peek(self):
        return self.t[self.i] if self.i < len(self.t) else None

    def eat(self, x=None):
        c = self.peek()
        if c is None or (x is not None and c != x):
            raise SyntaxError
        self.i += 1
        return c

    def level(self, lvl):
        ops = [("+", "-"), ("*", "/"), ("^",)][lvl]
        nxt = (lambda: self.level(lvl + 1)) if lvl < 2 else self.atom
        t = nxt()
        if lvl == 2 and self.pow_right:
            # alternative reading (right-associative power), used only to keep generated cases computable
            if self.peek() == "^":
                self.eat()
                return ("^", t, self.level(2))
            return t
        while self.peek() in ops:
            o = self.eat()
            t = (o, t, nxt())
        return t

    def atom(self):
        c = self.eat()
        if c.isdigit():
            return ("lit", int(c))
        if c == "(":
            t = self.level(0)
            self.eat(")")
            return ("grp", t)
        if c == "isqrt":
            self.eat("(")
            a = self.level(0)
            self.eat(")")
            return ("isqrt", a)
        if c in ("min", "max"):
            self.eat("(")
            a = self.level(0)
            self.eat(",")
            b = self.level(0)
            self.eat(")")
            return (c, a, b)
        if re.fullmatch(r"[A-Za-z][A-Za-z0-9_]*", c):
            return ("var", c)
        raise SyntaxError


def parse(s: str, pow_right=False):
    toks = lex(s)
    if not toks:
        return None
    p = P(toks, pow_right)
    try:
        t = p.level(0)
    except SyntaxError:
        return None
    return t if p.i == len(toks) else None


LIMIT_BITS = 20000


def ev(t, scope, pyneg=False):
    """arithmetic value of a tree; `pyneg`: follow CPython through a negative exponent (`int(a**b)` goes through floating
    point and evaluation CONTINUES with that number) — used only to decide whether the real code can finish the evaluation"""
    k = t[0]
    if k == "lit":
        return t[1]
    if k == "var":
        if t[1] not in scope:
            raise Undefined(t[1])
        return scope[t[1]]
    if k == "grp":
        return ev(t[1], scope, pyneg)
    if k == "isqrt":
        a = ev(t[1], scope, pyneg)
        if a < 0:
            raise Undefined("isqrt")
        return math.isqrt(a)
    a, b = ev(t[1], scope, pyneg), ev(t[2], scope, pyneg)
    if k == "+":
        return a + b
    if k == "-":
        return a - b
    if k == "*":
        return a * b
    if k == "/":
        if b == 0:
            raise Undefined("div")
        return a // b
    if k == "^":
        if b < 0:
            if pyneg:
                try:
                    return int(a**b)
                except (OverflowError, ZeroDivisionError) as e:
                    raise Undefined("negexp") from e
            raise Undefined("negexp")
        if b > 4000 or b * max(1, abs(a).bit_length()) > LIMIT_BITS:
            raise TooBig  # (Lean's runtime refuses huge exponents even for bases 0, 1, -1)
        return a**b
    if k == "min":
        return min(a, b)
    if k == "max":
        return max(a, b)
    raise AssertionError(k)


def feasible(s: str, scope: dict) -> bool:
    """True when evaluating s under scope never builds an integer beyond LIMIT_BITS bits."""
    body = s.split("=", 1)[1] if "=" in s else s
    t = parse(body)
    if t is None:
        # not a grammar string: fine unless the parser under test accepts it under some reading with a power
        return "^" not in s
    for tree in ([t, parse(body, pow_right=True)] if body.count("^") > 1 else [t]):
        # (both associativities of a power chain must stay computable, so that a parser that regroups it
        #  is caught by the comparison instead of hanging the harness)
        try:
            ev(tree, scope, True)
        except TooBig:
            return False
        except Undefined:
            if not _feasible_partial(tree, scope):
                return False
    return True


def _feasible_partial(t, scope) -> bool:
    # an Undefined somewhere: other subtrees are still evaluated by a postfix machine before the failing
    # operator; check each subtree on its own
    k = t[0]
    subs = [x for x in t[1:] if isinstance(x, tuple)]
    for s in subs:
        try:
            ev(s, scope, True)
        except TooBig:
            return False
        except Undefined:
            if not _feasible_partial(s, scope):
                return False
    return True
