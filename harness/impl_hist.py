"""HIST operations on the real code: a history of alias definitions, provider updates, decorations
and calls inside one interpreter state; afterwards the caller-visible state is compared with what it
was (provider mappings, annotation attributes).

 A|alias|cls,opt,shape            one shared annotation object (opt = its constructor flag, normally 0)
 V|pid|fresh/long/inst/unhash/cls/mapobj/bad/badfalsy/badstr/baddict/instbad/falsy|scope   a provider object (fresh dict per call / one long-lived dict / `inst`: the method is an attribute of the
                                  instance, not of its class — a namespace, a module, a mock / not a provider: an object, a falsy object, a string other than "self" / a falsy provider)
 S|pid|scope                      change what the provider returns
 D|fid|pid,-,self:pid,selfraw|name=alias:opt;name=(alias:opt+alias:opt)|ret|nested   (nested: fid | - | set:pid=k:3,n:4 = the body updates provider pid)
 I|newfid|fid|pid                 the method `fid` (declared with self:...) through another instance whose mapping is provider pid's
 C|fid|names;..|values;..|retvalue
"""
from __future__ import annotations

import copy
import typing

import impl
import impl_call
from impl import dltype, parse_scope, show_report
from impl_call import EVENTS, BodyError


class Prov:
    def __init__(self, kind: str, d: dict):
        self.kind, self.d = kind, dict(d)

    def get_dltype_scope(self):
        return self.d if self.kind == "long" else dict(self.d)

    def set(self, d: dict):
        if self.kind == "long":
            self.d.clear()
            self.d.update(d)
        else:
            self.d = dict(d)


class FalsyProv(Prov):
    """a genuine provider that is falsy (container-like: __len__ == 0)"""

    def __len__(self):
        return 0


class InstProv:
    """a provider whose `get_dltype_scope` lives on the instance (types.SimpleNamespace, a module with a module-level function, a mock):
    the protocol is structural, `isinstance(obj, DLTypeScopeProvider)` holds"""

    def __init__(self, d, is_provider=True):
        self.d = dict(d)
        self.is_provider = is_provider
        if is_provider:
            # (an object of this very type WITHOUT the attribute is not a provider: what one object of a type is says nothing about another)
            self.get_dltype_scope = lambda: dict(self.d)

    def set(self, d):
        self.d = dict(d)


class NotProv:
    def __init__(self, d):
        self.d = dict(d)

    def set(self, d):
        self.d = dict(d)


def make_class_provider(d):
    """a provider that is a CLASS object: `get_dltype_scope` is a classmethod reading a class attribute (a configuration class passed as
    `dltyped(scope_provider=Config)`); the runtime protocol holds for the class object itself"""
    return type("ConfigClassProv", (), {"d": dict(d), "get_dltype_scope": classmethod(lambda c: dict(c.d)), "set": classmethod(lambda c, d2: setattr(c, "d", dict(d2)))})


class _CIMap:
    """a mapping object that is no dict (keeps its items in an inner dict): what `get_dltype_scope` of a `mapobj` provider hands out, the
    SAME object on every call"""

    def __init__(self, inner):
        self.inner = inner

    def __getitem__(self, k):
        return self.inner[k]

    def __setitem__(self, k, v):
        self.inner[k] = v

    def __delitem__(self, k):
        del self.inner[k]

    def __iter__(self):
        return iter(self.inner)

    def __len__(self):
        return len(self.inner)

    def __contains__(self, k):
        return k in self.inner

    def keys(self):
        return self.inner.keys()

    def items(self):
        return self.inner.items()

    def values(self):
        return self.inner.values()

    def get(self, k, default=None):
        return self.inner.get(k, default)


import collections.abc as _abc  # noqa: E402

_abc.MutableMapping.register(_CIMap)


class MapObjProv:
    """a provider that hands out one long-lived custom mapping object (not a dict subclass)"""

    def __init__(self, d):
        self.d = dict(d)
        self.m = _CIMap(self.d)

    def get_dltype_scope(self):
        return self.m

    def set(self, d):
        self.d.clear()
        self.d.update(d)


class DictNotProv(dict):
    """a mapping handed over where a provider is expected (`dltyped(config)` instead of `dltyped(ConfigProvider(config))`): not a provider, and unhashable"""

    def __init__(self, d):
        super().__init__(d)
        self.d = dict(d)

    def set(self, d):
        self.d = dict(d)


class StrProv(str):
    """a string other than "self" given as scope provider: not a provider (and not the name of anything)"""

    def set(self, d):
        self.d = dict(d)


def _hint_src(ns, al: str) -> str:
    if al == "-":
        return "int"
    a, opt = al.split(":")
    h = a
    return {"0": h, "1": h + " | None", "2": h + " | int", "3": h + " | int | None", "4": f"typing.Optional[{h}]",
            "5": "None | " + h, "6": f"Annotated[int, {a}_obj]", "7": f"typing.Optional[typing.Optional[{h}]]",
            "8": f"typing.Union[int, {h}]", "9": f"typing.Union[None, float, {h}]"}[opt]


def _hints_src(ns, s: str) -> str:
    if s.startswith("("):
        inner = s[1:-1]
        parts = inner.split("+") if inner else []
        return "tuple[" + ", ".join(_hint_src(ns, p) for p in parts) + "]" if parts else "tuple[()]"
    return _hint_src(ns, s)


def parse_hvalue(s: str):
    if s.startswith("U:"):
        body = s[2:]
        return tuple(impl.parse_value(v) for v in (body.split("+") if body else []))
    return impl.parse_value(s)


def op_hist(*steps: str) -> str:
    import numpy as np

    impl_call._patch_events()
    b = impl_call.Built()
    ns = b.ns
    ns["DEPTH"] = [0]
    outs = []
    provs: dict = {}
    prov_expected: dict = {}
    ann_objs: dict = {}
    ann_snap: dict = {}
    body_of: dict = {}
    body_sets: dict = {}
    ns["BODY_SETS"] = body_sets
    ns["BODY_RAN"] = []
    for st in steps:
        f = st.split("|")
        try:
            if f[0] == "A":
                cls, opt, shape = f[2].split(",", 2)
                try:
                    obj = impl.class_by_name(cls)(impl.opt_shape(shape), optional=(opt == "1"))
                except SyntaxError:
                    return "decor err SyntaxError"
                ann_objs[f[1]] = obj
                ann_snap[f[1]] = copy.copy(obj.__dict__)
                ns[f[1] + "_obj"] = obj
                ns[f[1]] = typing.Annotated[np.ndarray, obj]
            elif f[0] == "V":
                d = parse_scope(f[3])
                if f[2] == "bad":
                    provs[f[1]] = NotProv(d)
                elif f[2] == "badfalsy":
                    provs[f[1]] = type("FalsyNotProv", (NotProv,), {"__len__": lambda self: 0})(d)
                elif f[2] == "badstr":
                    provs[f[1]] = StrProv("config")
                    provs[f[1]].d = dict(d)
                elif f[2] == "falsy":
                    provs[f[1]] = FalsyProv("fresh", d)
                elif f[2] == "inst":
                    provs[f[1]] = InstProv(d)
                elif f[2] == "cls":
                    provs[f[1]] = make_class_provider(d)
                elif f[2] == "mapobj":
                    provs[f[1]] = MapObjProv(d)
                elif f[2] == "instbad":
                    provs[f[1]] = InstProv(d, is_provider=False)
                elif f[2] == "unhash":
                    # a provider that cannot be hashed (an ordinary non-frozen dataclass config, any class with __eq__ and no __hash__)
                    provs[f[1]] = type("UnhashableProv", (Prov,), {"__eq__": lambda self, o: self is o, "__hash__": None})("fresh", d)
                elif f[2] == "baddict":
                    provs[f[1]] = DictNotProv(d)   # a plain mapping handed over instead of a provider: unhashable, not a provider
                else:
                    provs[f[1]] = Prov(f[2], d)
                prov_expected[f[1]] = dict(d)
                ns["PROV_" + f[1]] = provs[f[1]]
            elif f[0] == "S":
                d = parse_scope(f[2])
                provs[f[1]].set(d)
                prov_expected[f[1]] = dict(d)
            elif f[0] == "D":
                fid, pid, params, ret, nested = f[1:6]
                ps = [p.split("=", 1) for p in impl.split_semi(params)]
                sig = ", ".join(f"{n}: {_hints_src(ns, h)}" for n, h in ps)
                rets = "" if ret == "-" else f" -> {_hints_src(ns, ret)}"
                names = [n for n, _ in ps]
                body = f"    EVENTS.append(('body', '{fid}'))\n"
                if nested.startswith("set:"):
                    # the body changes (in place, for a long-lived dict) what provider `p` returns, while the call is running
                    sp, sscope = nested[4:].split("=", 1)
                    body_sets[fid] = (sp, parse_scope(sscope.replace(",", ";")))
                    body += f"    PROV_{sp}.set(BODY_SETS['{fid}'][1])\n    BODY_RAN.append('{fid}')\n"
                elif nested != "-":
                    body_sets.pop(fid, None)
                    body += f"    DEPTH[0] += 1\n    try:\n        if DEPTH[0] < 4:\n            F_{nested}({', '.join(names)})\n    finally:\n        DEPTH[0] -= 1\n"
                body += "    if RAISE[0]:\n        raise BodyError()\n    return RET[0]\n"
                if pid.startswith("self:"):
                    src = f"class K_{fid}:\n    def __init__(self, prov):\n        self.prov = prov\n"
                    if isinstance(provs.get(pid[5:]), InstProv) and provs[pid[5:]].is_provider:
                        # the method is assigned in __init__: an attribute of the instance, absent from the class
                        src += "        self.get_dltype_scope = lambda: self.prov.get_dltype_scope()\n"
                    elif not isinstance(provs.get(pid[5:]), (NotProv, StrProv, DictNotProv, InstProv)):
                        src += "    def get_dltype_scope(self):\n        return self.prov.get_dltype_scope()\n"
                    # ("self" built at run time: equal to the literal, not the interned object)
                    src += f"    @dltype.dltyped(''.join(('se', 'lf')))\n    def f(self{', ' if sig else ''}{sig}){rets}:\n"
                    src += "".join("    " + l + "\n" for l in body.splitlines())
                    src += f"F_{fid} = K_{fid}(PROV_{pid[5:]}).f\n"
                else:
                    dec = "" if pid == "-" else ("''.join(('se', 'lf'))" if pid == "selfraw" else f"PROV_{pid}")
                    src = f"@dltype.dltyped({dec})\ndef F_{fid}({sig}){rets}:\n{body}"
                ns.setdefault("RET", [None])
                ns.setdefault("RAISE", [False])
                try:
                    exec(compile(src, "<hist>", "exec"), ns)  # noqa: S102
                except Exception as e:  # noqa: BLE001
                    outs.append("decor pyexc " + type(e).__name__)
                    ns[f"F_{fid}"] = None
            elif f[0] == "I":
                # another instance of the class of method `base`, with its own provider
                new, base, pid = f[1:4]
                K = ns.get(f"K_{base}")
                ns[f"F_{new}"] = K(provs[pid]).f if K is not None and ns.get(f"F_{base}") is not None else None
                body_of[new] = body_of.get(base, base)
            elif f[0] == "C":
                fid, names, vals, ret = f[1:5]
                F = ns.get(f"F_{fid}")
                if F is None:
                    outs.append("decor pyexc TypeError" if f"F_{fid}" in ns else "unknown")
                    continue
                kw = dict(zip(impl.split_semi(names), [parse_hvalue(v) for v in impl.split_semi(vals)]))
                ns["RAISE"][0] = ret == "!"
                ns["RET"][0] = None if ret in ("!", "-") else parse_hvalue(ret)
                del EVENTS[:]
                del ns["BODY_RAN"][:]
                try:
                    out = F(**kw)
                    end = "ok" if out is ns["RET"][0] else "ok-different-object"
                except BodyError:
                    end = "bodyraised"
                except Exception as e:  # noqa: BLE001
                    end = show_report(e)
                for ran in ns["BODY_RAN"]:
                    prov_expected[body_sets[ran][0]] = dict(body_sets[ran][1])   # (the body's own update of the provider is expected)
                calls = sum(1 for e in EVENTS if e == ("body", body_of.get(fid, fid)))
                # outermost activation only (a recursive nested call re-enters the same body)
                if calls > 1:
                    calls = 1
                outs.append(f"calls={calls} {end}")
            else:
                return "bad-op"
        except Exception as e:  # noqa: BLE001
            return "harness-error " + type(e).__name__ + " " + str(e)[:80]
    provsame = all(getattr(p, "d", None) == prov_expected[k] for k, p in provs.items())
    annsame = all(ann_objs[k].__dict__ == ann_snap[k] for k in ann_objs)
    outs.append(f"state provsame={1 if provsame else 0} annsame={1 if annsame else 0}")
    return " ## ".join(outs)


impl.HANDLERS["HIST"] = op_hist
