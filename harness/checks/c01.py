"""C01 — no false accepts: one consistent dimension assignment per checked context."""
from __future__ import annotations

from checks import ctxcommon

PROP = "C01"
GENERATED = ['OpSemantics', 'DtypeTables', 'Core', 'EvalLoop', 'SrcExpand', 'SrcShape', 'DimFlags', 'ShapeLoop', 'ParserTables', 'TokLoop', 'ParseHelpers', 'ParseLoop', 'Wrapper', 'HintLoop', 'Classes', 'Decorate', 'SrcHints', 'SrcDecorate', 'ClassDecor', 'Resolve', 'SrcSurface']  # generated files this check's tie depends on
LEAN_MODULES = ["Properties.C01", "Properties.C03p", "Properties.Core", "Properties.CoreEval", "Properties.Prov.Expand", "Properties.Prov.Shape", "Properties.CoreShape", "Properties.Tables", "Properties.CoreExpr", "Properties.CoreWrap", "Properties.CoreHints", "Properties.CoreClasses", "Properties.CoreDecorate", "Properties.Prov.Hints", "Properties.Prov.Decorate", "Properties.CoreClassDecor", "Properties.CoreResolve", "Properties.Prov.Surface"]
RULE = (
    "corpus (witnesses of past findings) first; then seeded contexts: pick an assignment of sizes to names a,b,d (c,e derived) and tuples to "
    "groups g,h, pick 1-4 annotated tensors over a 24-form dimension alphabet (literal, name, name=literal, name=expression, expression, "
    "..., *name), derive conforming arrays in numpy/torch/jax, apply 0-2 perturbations (axis resized, inserted, dropped, dtype swapped, "
    "value None/non-array, provider value changed, the array object of another position passed again); tuples, optionals, return phase and provider scopes mixed in; a quarter of the contexts also as calls of a dltyped function (every call style, trailing parameters left at their default value). "
    "non-trivial = distinct operation line with >=1 annotated array that passed the rank test of its first tensor"
)
RULE += " Also: constructions of decorated NamedTuples / dataclasses (fields inherited from a base dataclass) / pydantic models; provider histories whose bodies update a provider during the call (false accepts judged by the per-call oracle of C12)."


def cases(tier, rng, run):
    import gen_ctx
    from checks import callcommon  # noqa: F401  (registers the CALL handler)
    import impl_hist  # noqa: F401  (registers the HIST handler)
    from framework import Case

    out = ctxcommon.ctx_cases(run, tier, 25000, 400000)
    # the same kind of context presented as a CALL of a dltyped function (all call styles, trailing parameters left at their default)
    for _ in range(6000 if tier == "quick" else 100000):
        c = gen_ctx.gen_ctx(rng)
        out.append(Case(c.rand_call(rng, styles=("pos", "kw", "mixed", "kwonly", "posonly"), omit_p=0.5), "call", {"ctx": c}))
    # ... and as the construction of a decorated NamedTuple / dataclass (fields in any order; the first fields inherited from a base
    # dataclass, plain or decorated itself) / pydantic model: every annotated field is a tensor of the context, wherever it is declared
    for _ in range(2500 if tier == "quick" else 40000):
        c = gen_ctx.gen_ctx(rng, tuple_p=0.0, ret_p=0.0, provider_p=0.0, alias_p=0)
        if not all(s.value[0] == "T" or (s.value[0] == "N" and s.optional) for p in c.params for s in p.slots):
            continue
        kind, style = rng.choice([("nt", "pos"), ("nt", "kw"), ("nt", "kwrev"), ("dc", "pos"), ("dc", "kw"), ("dc", "kwrev"), ("dc", "inherit"), ("dc", "inherit"), ("dc", "inherit2"), ("dc", "inherit2"), ("pyd", "kw"), ("pyd", "kwrev")])
        out.append(Case(c.call_line(kind, style), "class-form", {"ctx": c}))
    # provider histories (the C12 generator: providers that change between calls and DURING a call — a body that reconfigures its own
    # instance): a call or a returned value that violates under the mapping the call started with is never accepted
    from checks import c12

    for _ in range(600 if tier == "quick" else 8000):
        out.append(Case(c12.gen(rng, tier), "prov-history"))
    out += [Case(l, "prov-history") for l in c12.live_view_histories()]
    # a name bound in one way and met again in another, zero sizes included (exhaustive small family)
    for c in gen_ctx.rebinding_contexts() + gen_ctx.group_contexts():
        out.append(Case(c.ctx_line(), "rebind", {"ctx": c}))
        out.append(Case(c.call_line("func", "pos"), "rebind", {"ctx": c}))
    return out


def judge(case, impl_out, spec):
    if case.line.startswith("HIST"):
        from checks import c12

        why = c12.judge(case, impl_out, spec)
        return why if why and " violates " in why else None   # (false accepts only: the other demands of that oracle belong to C02 / C12)
    if case.line.startswith("CALL"):
        from checks import callcommon

        if callcommon.end_of(impl_out) != "ok" or impl_out.startswith("identity"):
            return None
    elif not impl_out.startswith("accept"):
        return None
    sp = ctxcommon.spec_of(case)
    if sp is None:
        return None
    if sp[0] == "violates":
        return f"context accepted although no consistent assignment exists ({sp[1]['why']})"
    return None


def second_pass(run, cs, impl_out):
    """no accepted context may owe its acceptance to how long the evaluation took: a sample of the same operations with the
    slow-evaluation threshold below any measurable time (the pass of checks/c07.py)"""
    from checks import c07

    return c07.second_pass(run, cs, impl_out)


def nontrivial(case, impl_out):
    return not impl_out.startswith(("reject ndims", "err"))


def known_region(case, impl_out, model_out, spec):
    return None


def extra_coverage(run):
    acc = sum(v for k, v in run.dist.items() if ":accept" in k)
    return {"accepted_share": round(acc / max(1, run.n_cases), 3)}
