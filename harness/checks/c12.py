"""C12 — scope providers pre-bind dimension names for exactly the current call."""
from __future__ import annotations

import gen_hist
import impl_hist  # noqa: F401
from framework import Case

PROP = "C12"
GENERATED = ['SharedState', 'Core', 'Wrapper', 'SrcDecorate', 'Decorate', 'EvalLoop', 'OpSemantics', 'Resolve', 'SrcSurface']  # generated files this check's tie depends on
LEAN_MODULES = ["Properties.C12", "Properties.Core", "Properties.CoreWrap", "Properties.Prov.Decorate", "Properties.CoreDecorate", "Properties.CoreEval", "Properties.Tables", "Properties.CoreResolve", "Properties.Prov.Surface"]
RULE = (
    "corpus; histories over functions and methods with a provider object / \"self\" / an object (or a string other than \"self\") that does not implement the protocol / "
    "\"self\" on a function without self, the same method through two instances with mappings of their own: provider mappings empty, binding used and unused names, conflicting with a literal, referred to "
    "inside expressions, changed between calls, returned as a fresh dict or as one long-lived dict; the verdict of every call must be the "
    "fresh verdict under the provider's values at that moment (model) and the provider's mapping must be unchanged afterwards. "
    "non-trivial = distinct history with a provider and >=2 calls"
)
RULE += " Also: parameter-less functions and Optional parameters left None; zero-valued provider sizes; providers whose method lives on the instance, unhashable providers, a mapping handed over instead of a provider; a decoration that must succeed and raises. Class providers (classmethod), a long-lived mapping object, \"self\" on a parameter-less function (a refusal that is missing is a violation)."
SHAPES = ["n k", "a k", "k", "k=3", "a+k", "k/2 a", "n*k", "... k", "a b", "n=k+1", "a n=k*2", "n=k+1"]  # (named expressions whose own name the provider may bind)


def gen(rng, tier) -> str:
    steps = []
    sh = rng.sample(SHAPES, 3)
    for i, s in enumerate(sh):
        steps.append(f"A|T{i}|FloatTensor,0,{s}")
    kinds = {"p1": rng.choice(["fresh", "fresh", "inst", "unhash", "cls"]), "p2": rng.choice(["long", "long", "mapobj"]), "p3": rng.choice(["bad", "bad", "badfalsy", "badstr", "baddict", "instbad"]), "p4": "falsy"}
    for pid, kind in kinds.items():
        steps.append(f"V|{pid}|{kind}|{rng.choice(['', 'k:3', 'k:3;n:4', 'a:2;k:3', 'z:9', 'k:2;n:4', 'k:3;n:6', 'k:0', 'k:0;n:1', 'a:0;k:3'])}")
    fns = {}
    for fid in ("f1", "f2", "f3", "f4"):
        pid = rng.choice(["p1", "p2", "p2", "p3", "p4", "p4", "self:p1", "self:p2", "self:p3", "self:p4", "selfraw", "-"])
        al = rng.randrange(3)
        ret = "-" if rng.random() < 0.6 else f"T{rng.randrange(3)}:0"
        # how the function takes its tensor: a plain parameter / no parameter at all (a factory: only the return value is annotated) /
        # an Optional parameter that callers may leave None — in the last two NO argument tensor is queued, the provider counts all the same
        pstyle = rng.choice(["x"] * 6 + ["none", "opt"])
        if pstyle == "none":
            ret = f"T{rng.randrange(3)}:0"
        nested = "-"
        if ret != "-" and rng.random() < 0.3:
            # the body itself changes what a provider returns (a method that reconfigures its own instance for the next call): the
            # return value is still judged under the mapping the call STARTED with, the next call under the new one
            nested = f"set:{rng.choice(['p1', 'p2', 'p2', 'p4'])}={rng.choice(['k:3', 'k:5', 'k:3,n:4', 'k:4,n:2', 'a:2,k:3'])}"
        steps.append(f"D|{fid}|{pid}|{ {'x': f'x=T{al}:0', 'none': '', 'opt': f'x=T{al}:1'}[pstyle] }|{ret}|{nested}")
        fns[fid] = (al, ret, pstyle)
        if pid.startswith("self:") and pid[5:] in ("p1", "p2", "p4") and rng.random() < 0.6:
            # the same method through a second instance of its class with a mapping of its own
            other = rng.choice([p for p in ("p1", "p2", "p4") if p != pid[5:]])
            steps.append(f"I|{fid}b|{fid}|{other}")
            fns[fid + "b"] = (al, ret, pstyle)
    for _ in range(10 if tier == "quick" else 30):
        if rng.random() < 0.3:
            steps.append(f"S|{rng.choice(['p1', 'p2', 'p3', 'p4'])}|{rng.choice(['', 'k:3', 'k:5', 'k:3;n:4', 'k:4;n:2', 'a:2;k:3', 'k:0', 'a:0;k:3'])}")
            continue
        fid = rng.choice(list(fns))
        al, ret, pstyle = fns[fid]

        def val(alias):
            dims = []
            for d in sh[alias].split():
                if d == "...":
                    dims += [rng.choice([1, 2])] * rng.choice([0, 1])
                else:
                    dims.append(rng.choice([0, 1, 2, 3, 3, 4, 5, 6, 12]))   # (0: an empty buffer — a size like any other, also as a provided value)
            return f"T,0:float32,{'.'.join(map(str, dims))}"

        r = "-" if ret == "-" else val(int(ret[1]))
        if pstyle == "none":
            steps.append(f"C|{fid}|||{r}")
        else:
            steps.append(f"C|{fid}|x|{'N' if pstyle == 'opt' and rng.random() < 0.6 else val(al)}|{r}")
    return "HIST\t" + "\t".join(steps)


def live_view_histories() -> list[str]:
    """deterministic histories in which the body of a call updates — in place — the long-lived mapping its provider hands out: the
    argument was judged under the mapping the call started with, and so is the return value (a context that keeps a live view of the
    provider's mapping would judge the two halves of one call under different sizes)"""
    out = []
    for kind in ("long", "mapobj"):
        for pid_spec in ("p2", "self:p2"):
            for old, new in ((4, 8), (3, 5), (0, 2)):
                steps = ["A|T0|FloatTensor,0,n k", f"V|p2|{kind}|k:{old}", f"D|f1|{pid_spec}|x=T0:0|T0:0|set:p2=k:{new}",
                         f"C|f1|x|T,0:float32,3.{old}|T,0:float32,3.{new}",     # the result has the NEW size: violates under the mapping of this call
                         f"C|f1|x|T,0:float32,3.{new}|T,0:float32,3.{new}",     # the next call starts with the new mapping (the body sets it again): conforms
                         f"S|p2|k:{old}", f"C|f1|x|T,0:float32,3.{old}|T,0:float32,3.{old}"]   # … and the result has the OLD size: conforms under the mapping of this call
                out.append("HIST\t" + "\t".join(steps))
    return out


def cases(tier, rng, run):
    out = [Case(l, "corpus") for l in run.corpus_lines()]
    for _ in range(2500 if tier == "quick" else 30000):
        out.append(Case(gen(rng, tier), "prov"))
    out += [Case(l, "live-view") for l in live_view_histories()]
    return out


def _expected(line: str):
    """What the documented rule demands of every output part of a history (None = no demand): the verdict of a call is
    decided by `oracle.spec_ctx` under the mapping the provider returns AT THAT MOMENT (independent of code and model)."""
    import oracle
    from checks import ctxcommon
    from impl import parse_scope

    acc = ctxcommon.accepts()
    ann, kind, cur, fns, exp, sets = {}, {}, {}, {}, [], {}
    UNKNOWN = object()

    def body_update(fid, verdict):
        """a body that changes a provider: applied when the body ran; when the oracle has no opinion on that, the provider's
        mapping is unknown from here on"""
        if fid in sets:
            sp, sc = sets[fid]
            if verdict in ("accepted", "return-rejected"):
                cur[sp] = dict(sc)
            elif verdict is None:
                cur[sp] = UNKNOWN
    for st in line.split("\t")[1:]:
        f = st.split("|")
        if f[0] == "A":
            cls, opt, shape = f[2].split(",", 2)
            ann[f[1]] = (cls, shape)
        elif f[0] == "V":
            kind[f[1]], cur[f[1]] = f[2], parse_scope(f[3])
        elif f[0] == "S":
            cur[f[1]] = parse_scope(f[2])
        elif f[0] == "D":
            fid, pid, params, ret = f[1:5]
            sets.pop(fid, None)
            if len(f) > 5 and f[5].startswith("set:"):
                sp, sscope = f[5][4:].split("=", 1)
                sets[fid] = (sp, parse_scope(sscope.replace(",", ";")))
            if pid == "selfraw":
                exp.append(("decor", "decor pyexc TypeError"))   # "self" on a function without self is refused at decoration
                fns[fid] = None
            else:
                fns[fid] = (pid, (params.split("=")[1].split(":")[0], params.split("=")[1].split(":")[1]) if params else None, None if ret == "-" else ret.split(":")[0])
        elif f[0] == "I":
            base = fns.get(f[2])
            fns[f[1]] = None if base is None else ("self:" + f[3], base[1], base[2])
            if f[2] in sets:
                sets[f[1]] = sets[f[2]]
        elif f[0] == "C":
            fid, _names, val, ret = f[1:5]
            d = fns.get(fid)
            if d is None:
                exp.append(("call", "decor-failed" if fid in fns else None))   # (a call of a function whose decoration was refused)
                body_update(fid, None)
                continue
            pid, al, ral = d
            p = pid[5:] if pid.startswith("self:") else pid
            if pid == "-":
                scope = {}
            elif kind.get(p) in ("fresh", "long", "falsy", "inst", "unhash", "cls", "mapobj"):
                scope = cur[p]
                if scope is UNKNOWN:
                    exp.append(("call", None))
                    body_update(fid, None)
                    continue
            elif kind.get(p) in ("bad", "badfalsy", "badstr", "baddict", "instbad"):
                exp.append(("call", "not-a-provider"))   # an object that does not implement the protocol
                continue
            else:
                exp.append(("call", None))
                body_update(fid, None)
                continue

            def ent(name, alias, v):
                _t, code, dims = v.split(",")
                return oracle.Ent(name, ann[alias][0], ann[alias][1], code, tuple(int(x) for x in dims.split(".")) if dims else ())

            if al is None or (val == "N" and al[1] == "1"):
                ea = []            # no parameter / an Optional parameter left None: nothing is queued for the arguments
                va = "conforms"
            elif val == "N":
                exp.append(("call", "args-rejected"))   # None under a hint without `| None`
                continue
            else:
                ea = [ent("x", al[0], val)]
                va, _ = oracle.spec_ctx(scope, ea, acc)
            if va == "violates":
                exp.append(("call", "args-rejected"))
            elif va == "conforms" and ral is None:
                exp.append(("call", "accepted"))
            elif va == "conforms" and ret not in ("-", "!"):
                vw, _ = oracle.spec_ctx(scope, ea + [ent("return", ral, ret)], acc)
                exp.append(("call", {"conforms": "accepted", "violates": "return-rejected"}.get(vw)))
            else:
                exp.append(("call", None))
            body_update(fid, exp[-1][1])
    return exp


def judge(case, impl_out, spec):
    parts = impl_out.split(" ## ")
    last = parts[-1]
    if "provsame=0" in last:
        return "the mapping returned by a scope provider was modified by a checked call"
    if not case.line.startswith("HIST"):
        return None
    try:
        exp = _expected(case.line)
    except Exception:  # noqa: BLE001
        return None
    if len(exp) != len(parts) - 1:
        # more output parts than steps that produce one: a decoration that the rule lets succeed (any provider object, hashable or not,
        # "self" on a method, no provider) raised — only `"self"` on a function without self / cls is refused at decoration
        n_dec = sum(1 for p_ in parts[:-1] if p_.startswith("decor pyexc"))
        n_exp = sum(1 for w, e in exp if w == "decor" or e == "decor-failed")
        if n_dec > n_exp:
            first = next(p_ for p_ in parts[:-1] if p_.startswith("decor pyexc"))
            return f"a decoration that must succeed raised: {n_dec} output parts say {first!r}, the history explains {n_exp} of them (\"self\" on a function without self / cls)"
        if n_dec < n_exp:
            return (f"\"self\" as scope provider on a function without self / cls (no parameter at all included) must be refused with TypeError at decoration: the history has {n_exp} "
                    f"such decorations and calls of them, the output shows {n_dec} refusals")
        return None
    for k, ((what, e), got) in enumerate(zip(exp, parts)):
        if e is None or e == "decor-failed":
            continue
        if what == "decor":
            if got != e:
                return f"\"self\" on a function without self/cls must be refused with TypeError at decoration, got {got!r}"
            continue
        rejected = " reject " in " " + got + " "
        if e == "not-a-provider" and got != "calls=0 reject scopeprovider":
            return f"call #{k}: the scope provider does not implement the protocol; DLTypeScopeProviderError is demanded, but: {got!r}"
        if e == "accepted" and got != "calls=1 ok":
            return f"call #{k} conforms under the mapping its provider returns at that moment, but: {got!r}"
        if e == "args-rejected" and not (got.startswith("calls=0 ") and rejected):
            return f"call #{k} violates its annotations under the mapping its provider returns at that moment, but: {got!r}"
        if e == "return-rejected" and not (got.startswith("calls=1 ") and rejected):
            return f"the value returned by call #{k} violates the return annotation under the provider's current mapping, but: {got!r}"
    return None


def nontrivial(case, impl_out):
    return impl_out.count("calls=") >= 2


def search(run, tier):
    from checks import c09

    c09.search(run, tier)
