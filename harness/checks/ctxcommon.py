"""Shared machinery of the context-level checks (C01, C02, C08, C10, C11, C15)."""
from __future__ import annotations

import gen_ctx
import oracle
from framework import Case


def ctx_cases(run, tier, n_quick, n_thorough, **kw):
    rng = run.rng
    out = []
    for l in run.corpus_lines():
        out.append(Case(l, "corpus", {"ctx": None}))
    n = n_quick if tier == "quick" else n_thorough
    for _ in range(n):
        c = gen_ctx.gen_ctx(rng, **kw)
        out.append(Case(c.ctx_line(), "gen", {"ctx": c}))
    return out


def parse_ctx_line(line: str) -> gen_ctx.Ctx:
    """rebuild a Ctx from a CTX operation line (for corpus / replay lines)"""
    f = line.split("\t")
    ctx = gen_ctx.Ctx()
    if f[1]:
        for kv in f[1].split(";"):
            k, v = kv.split(":")
            ctx.scope[k] = int(v.rstrip("n"))
            if v.endswith("n"):
                ctx.npkeys.add(k)
    phase = 0
    for c in f[2:]:
        g = c.split("|")
        if g[0] == "V":
            phase += 1
            continue
        slots = []
        specs = g[2].split(";") if g[2] else []
        vals = g[3].split(";") if g[3] else []
        for sp, v in zip(specs, vals):
            if v.startswith("T,"):
                _, code, dims = v.split(",")
                val = ("T", code, tuple(int(x) for x in dims.split(".")) if dims else ())
            else:
                val = (v,)
            if sp == "-":
                slots.append(gen_ctx.Slot(None, None, False, val))
            else:
                cls, opt, shape = sp.split(",", 2)
                slots.append(gen_ctx.Slot(cls, None if shape == "<None>" else shape, opt == "1", val))
        p = gen_ctx.Param(g[1], slots, len(slots) > 1)
        if len(specs) != len(vals):
            p.slots = None  # arity mismatch: not judged by the oracle
        if g[1] == "return" and phase >= 1:
            ctx.ret = p
        else:
            ctx.params.append(p)
    return ctx


def _val(v: str):
    if v.startswith("T,"):
        _, code, dims = v.split(",")
        return ("T", code, tuple(int(x) for x in dims.split(".")) if dims else ())
    return (v,)


def _slot(sp: str, v: str):
    if sp in ("-", "-a", "-u", "-o", "-n", "-v", "-s"):
        return gen_ctx.Slot(None, None, False, _val(v), pspell=sp)
    cls, opt, shape = sp.split(",", 2)
    if opt not in ("0", "1", "4", "5", "7", "A"):
        raise ValueError("general union")
    return gen_ctx.Slot(cls, None if shape == "<None>" else shape, opt not in ("0", "A"), _val(v))


def parse_call_line(line: str) -> gen_ctx.Ctx:
    """rebuild a Ctx from a CALL operation line (corpus / replay lines); raises when values do not match the hints' arity"""
    f = line.split("\t")
    ctx = gen_ctx.Ctx()
    if f[3]:
        for kv in f[3].split(";"):
            k, v = kv.split(":")
            ctx.scope[k] = int(v.rstrip("n"))
            if v.endswith("n"):
                ctx.npkeys.add(k)
    for it in f[4:]:
        g = it.split("|")
        if g[0] in ("D", "AL", "VA", "VK"):
            continue
        if g[0] in ("P", "PD", "PE"):
            name, mode, specs, val = g[1], g[2], g[3], g[4]
        else:
            name, mode, specs, val = "return", g[1], g[2], g[3]
            if mode == "-" or val == "!":
                continue
        if mode in ("T", "TO"):
            sps = specs.split(";") if specs else []
            if val[:2] not in ("U:", "L:", "S:"):
                raise ValueError("non-tuple value for tuple hint")
            vals = val[2:].split(";") if val[2:] else []
            if len(sps) != len(vals):
                raise ValueError("arity")
            p = gen_ctx.Param(name, [_slot(a, b) for a, b in zip(sps, vals)], True)
        else:
            if val[:2] in ("U:", "L:", "S:"):
                raise ValueError("tuple value for single hint")
            p = gen_ctx.Param(name, [_slot(specs, val)], False)
        if g[0] == "R":
            ctx.ret = p
        else:
            ctx.params.append(p)
    return ctx


def ctx_of(case) -> gen_ctx.Ctx | None:
    c = case.meta.get("ctx")
    if c is None and case.line.startswith("CALL"):
        try:
            c = parse_call_line(case.line)
        except Exception:  # noqa: BLE001
            return None
        case.meta["ctx"] = c
        return c
    if c is None:
        try:
            c = parse_ctx_line(case.line)
        except Exception:  # noqa: BLE001
            return None
        if any(p.slots is None for p in [*c.params, *([c.ret] if c.ret else [])]):
            return None
        case.meta["ctx"] = c
    return c


_ACC = None


def accepts():
    global _ACC
    if _ACC is None:
        _ACC = oracle.make_accepts(gen_ctx.meta())
    return _ACC


def spec_of(case):
    """('conforms'|'violates'|'silent', detail) or None when the oracle does not apply (non-array values, ...)"""
    if "spec" in case.meta:
        return case.meta["spec"]
    c = ctx_of(case)
    r = None
    if c is not None:
        ents = c.entries()
        if ents is not None:
            r = oracle.spec_ctx(c.scope, ents, accepts())
    case.meta["spec"] = r
    return r
