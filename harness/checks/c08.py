"""C08 — rejections are DLTypeErrors of the right kind with factually correct reports."""
from __future__ import annotations

import gen_ctx
import oracle
import pyref
from checks import callcommon, ctxcommon
from framework import Case

PROP = "C08"
GENERATED = ['ErrorTable', 'OpSemantics', 'DtypeTables', 'Core', 'SrcErrors', 'SrcExpand', 'Wrapper', 'HintLoop', 'Decorate', 'Classes', 'ShapeLoop', 'SrcHints', 'SrcDecorate', 'Resolve', 'SrcSurface', 'SrcConstants', 'Errors']  # generated files this check's tie depends on
LEAN_MODULES = ["Properties.C08", "Properties.C08b", "Properties.Core", "Properties.Prov.Errors", "Properties.Prov.Expand", "Properties.CoreWrap", "Properties.CoreHints", "Properties.CoreDecorate", "Properties.CoreClasses", "Properties.CoreShape", "Properties.Prov.Hints", "Properties.Prov.Decorate", "Properties.CoreResolve", "Properties.Prov.Surface", "Properties.Prov.Constants", "Properties.CoreErrors"]
RULE = (
    "corpus; seeded contexts built conforming and then given exactly one perturbation (one axis resized, an axis added or dropped, dtype "
    "changed, value replaced by None / a non-array) plus multi-fault contexts (2 perturbations) and contexts whose expressions divide by a "
    "zero-sized axis, take isqrt of a negative difference or raise to a negative power; each presented directly (CTX) and through a dltyped "
    "function (CALL); the report is read from the exception's attributes AND parsed from its message, and judged by an independent oracle "
    "(first-occurrence bindings before the reported axis, reference evaluation of that axis' expression). non-trivial = distinct rejected line"
)
RULE += " Also: rejections of 500- / 4000-element tuple hints with warnings turned into errors (threshold of the tree under test)."


def cases(tier, rng, run):
    out = [Case(l, "corpus") for l in run.corpus_lines()]
    n = 12000 if tier == "quick" else 200000
    for i in range(n):
        c = gen_ctx.gen_ctx(rng, perturb=(1, 1, 1, 2), tuple_p=0.25, ret_p=0.3)
        if i % 2 == 0:
            out.append(Case(c.ctx_line(), "ctx", {"ctx": c}))
        else:
            out.append(Case(c.rand_call(rng, styles=("pos", "kw", "kwonly", "posonly")), "call", {"ctx": c}))
    # arithmetic faults (F7)
    for _ in range(600 if tier == "quick" else 6000):
        a, b = rng.choice([0, 1, 2, 3]), rng.choice([0, 1, 2, 3])
        e = rng.choice(["a/b", "isqrt(a-b)", "a^(a-b)", "b/(a-a)", "isqrt(b-a-1)", "a/(b-b)+1"])
        out.append(Case(f"CTX\t\tA|x|FloatTensor,0,a b {e}|T,0:float32,{a}.{b}.{rng.choice([0, 1, 2])}\tV", "arith"))
    return out


def _fields(report: str) -> dict:
    report = report.split(" msg-mismatch", 1)[0]
    return dict(f.split("=", 1) for f in report.split(" ")[2:] if "=" in f)


def judge(case, impl_out, spec):
    end = callcommon.end_of(impl_out)
    if end.startswith("pyexc"):
        if case.line.startswith("CALL") and "U:" not in case.line and end == "pyexc TypeError":
            pass
        return "the checker raised " + end.split(" ")[1] + ", which is not a DLTypeError"
    if not end.startswith("reject"):
        return None
    if " msg-mismatch" in end:
        return "the message of the error does not carry what its attributes say: " + end.split(" msg-mismatch", 1)[1]
    kind = end.split(" ")[1]
    if kind.startswith("unknown-"):
        return "rejection with an unknown DLTypeError subclass"
    c = ctxcommon.ctx_of(case)
    if c is None:
        return None
    f = _fields(end)
    # the flattened (name -> slot) map
    slots = {}
    for p in [*c.params, *([c.ret] if c.ret else [])]:
        for i, s in enumerate(p.slots or []):
            slots[f"{p.name}[{i}]" if i > 0 else p.name] = s
    if kind in ("ndims", "dtype", "shape", "invalidref"):
        s = slots.get(f.get("tensor"))
        if s is None or s.cls is None or s.value[0] != "T":
            return f"the report names tensor {f.get('tensor')!r}, which is not an annotated array of this context"
        dims = s.value[2]
        ds = oracle.classify_shape(s.shape)
        if kind == "ndims":
            if int(f["actual"]) != len(dims):
                return f"rank error reports actual={f['actual']}, the array has rank {len(dims)}"
            if ds is not None:
                has_marker = any(d[0] in ("anon", "multi") for d in ds)
                exp = int(f["expected"])
                if not has_marker and exp != len(ds):
                    return f"rank error reports expected={exp}, the annotation declares {len(ds)} axes"
                if not has_marker and len(dims) == len(ds):
                    return "rank error although the rank equals the number of declared axes"
        elif kind == "dtype":
            if ctxcommon.accepts()(s.cls, s.value[1]):
                return "dtype error although the dtype belongs to the documented category of the class"
        elif kind == "shape":
            i = int(f["dim"])
            if i >= len(dims):
                return f"shape error reports axis {i} of a rank-{len(dims)} array"
            if int(f["actual"]) != dims[i]:
                return f"shape error reports actual={f['actual']} for axis {i}, the array has {dims[i]} there"
            if int(f["expected"]) == dims[i]:
                return "shape error with expected == actual"
            exp = _expected_value(c, f["tensor"], i)
            if exp is not None and not exp:
                return f"shape error reports expected={f['expected']} for axis {i}, but that axis is the first occurrence of its name: nothing before it (tensors, provider) binds it"
            if exp is not None and int(f["expected"]) not in exp:
                return f"shape error reports expected={f['expected']} for axis {i}; under the bindings of the tensors before it the axis demands {sorted(exp)}"
        elif kind == "invalidref":
            bound = _bound_before(c, f["tensor"])
            if bound is not None and f.get("missing") in bound:
                return f"invalid-reference error names {f.get('missing')!r}, which is bound by an earlier dimension or the provider"
    return None


def _walk(c: gen_ctx.Ctx, upto_tensor: str, upto_axis: int | None):
    """first-occurrence bindings established strictly before (tensor, axis) in source order"""
    sigma = dict(c.scope)
    for p in [*c.params, *([c.ret] if c.ret else [])]:
        for i, s in enumerate(p.slots):
            nm = f"{p.name}[{i}]" if i > 0 else p.name
            if s.cls is None or s.value[0] != "T":
                continue
            ds = oracle.classify_shape(s.shape)
            if ds is None:
                return None
            al = oracle.align(ds, len(s.value[2]))
            if al is None:
                if nm == upto_tensor:
                    return sigma
                continue
            pairs, absorbed = al
            order = [(ax, d) for d, ax in pairs]
            mi = next((j for j, d in enumerate(ds) if d[0] in ("anon", "multi")), None)
            if absorbed is not None and ds[mi][0] == "multi":
                order += [(ax, ("grp", ds[mi][1], j)) for j, ax in enumerate(range(*absorbed))]
            order.sort(key=lambda x: x[0])
            for ax, d in order:
                if nm == upto_tensor and upto_axis is not None and ax >= upto_axis:
                    return sigma
                key = d[1] if d[0] in ("name", "namedlit", "namedexpr") else (f"{d[1]}[{d[2]}]" if d[0] == "grp" else None)
                if key is not None and key not in sigma:
                    sigma[key] = s.value[2][ax]
            if nm == upto_tensor:
                return sigma
    return sigma


def _bound_before(c, tensor):
    """names bound before the first axis of that tensor (the report carries no axis index)"""
    s = _walk(c, tensor, 0)
    return None if s is None else set(s)


def _expected_value(c, tensor, axis):
    """the set of values the checker may truthfully report as expected for that axis (None = no opinion)"""
    sigma = _walk(c, tensor, axis)
    if sigma is None:
        return None
    for p in [*c.params, *([c.ret] if c.ret else [])]:
        for i, s in enumerate(p.slots):
            nm = f"{p.name}[{i}]" if i > 0 else p.name
            if nm != tensor:
                continue
            ds = oracle.classify_shape(s.shape)
            al = oracle.align(ds, len(s.value[2])) if ds is not None else None
            if al is None:
                return None
            pairs, absorbed = al
            for d, ax in pairs:
                if ax != axis:
                    continue
                out = set()
                if d[0] == "lit":
                    out.add(d[1])
                elif d[0] == "name":
                    if d[1] in sigma:
                        out.add(sigma[d[1]])
                    else:
                        return set()   # the first occurrence of a plain name demands nothing: no shape error can be true of it
                elif d[0] == "namedlit":
                    out.add(d[2])
                    if d[1] in sigma:
                        out.add(sigma[d[1]])
                else:
                    r = oracle.ev(d[2], sigma)
                    if r[0] != "val":
                        return None
                    out.add(r[1])
                    if d[0] == "namedexpr" and d[1] in sigma:
                        out.add(sigma[d[1]])
                    if d[0] == "expr" and d[1] in sigma:
                        out.add(sigma[d[1]])
                return out or None
            if absorbed is not None and absorbed[0] <= axis < absorbed[1]:
                mi = next(j for j, d in enumerate(ds) if d[0] in ("anon", "multi"))
                if ds[mi][0] == "multi":
                    k = f"{ds[mi][1]}[{axis - absorbed[0]}]"
                    return {sigma[k]} if k in sigma else None
    return None


def nontrivial(case, impl_out):
    return "reject" in impl_out or "pyexc" in impl_out


def known_region(case, impl_out, model_out, spec):
    # F7: evaluation errors (ZeroDivisionError, ValueError of isqrt, negative powers) and zip() errors of
    # tuple-valued parameters are not converted into DLTypeErrors
    m = callcommon.end_of(model_out)
    if m.startswith("pyexc") or m == "unmodelled" or m.endswith(" unmodelled"):
        return "F7"
    return None


def custom(run, tier):
    """The decorated thing need not be a plain function: `dltyped` on top of a staticmethod object, a jitted function, another
    `functools.wraps` decorator.  Every rejection is still the DLTypeError of its kind (the error path has no business with
    attributes only plain functions have)."""
    import functools
    import typing
    import warnings

    import jax
    import numpy as np

    import impl
    from framework import Finding

    dltype = impl.dltype
    A = typing.Annotated[np.ndarray, dltype.FloatTensor["a b"]]
    J = typing.Annotated[jax.Array, dltype.FloatTensor["a b"]]
    ns = {"A": A, "J": J}
    exec(compile("def f(x: A, y: A, bad_return=False) -> A:\n    return None if bad_return else x\n"
                 "def fj(x: J, y: J) -> J:\n    return x\n", "<c08>", "exec", dont_inherit=True), ns)  # noqa: S102
    f, fj = ns["f"], ns["fj"]

    def wrapped():
        @functools.wraps(f)
        def inner(*args, **kwargs):
            return f(*args, **kwargs)

        return inner

    def z(*s, dt=np.float32):
        return np.zeros(s, dt)

    kinds = {"staticmethod": (lambda: dltype.dltyped()(staticmethod(f)), lambda v: v), "jax.jit": (lambda: dltype.dltyped()(jax.jit(fj)), jax.numpy.asarray),
             "functools.wraps": (lambda: dltype.dltyped()(wrapped()), lambda v: v), "function": (lambda: dltype.dltyped()(f), lambda v: v)}
    faults = {"none": ((z(2, 3), z(2, 3)), {}, "ok"), "rank": ((z(2,), z(2, 3)), {}, "DLTypeNDimsError"), "dtype": ((z(2, 3, dt=np.int32), z(2, 3)), {}, "DLTypeDtypeError"),
              "size": ((z(2, 3), z(2, 4)), {}, "DLTypeShapeError"), "non-array": ((5, z(2, 3)), {}, "DLTypeUnsupportedTensorTypeError"),
              "non-array return": ((z(2, 3), z(2, 3)), {"bad_return": True}, "DLTypeUnsupportedTensorTypeError")}
    n = 0
    with warnings.catch_warnings():
        warnings.simplefilter("ignore")
        for kn, (mk, conv) in kinds.items():
            try:
                g = mk()
            except Exception as e:  # noqa: BLE001
                run.findings.append(Finding("failing-input", f"dltyped on top of a {kn} object cannot be built: {type(e).__name__}", Case(f"CALLABLE\t{kn}\tdecorate", "callable"), type(e).__name__))
                continue
            for fn, (args, kw, want) in faults.items():
                if kw and kn == "jax.jit":
                    continue
                n += 1
                try:
                    g(*[conv(a) if isinstance(a, np.ndarray) else a for a in args], **kw)
                    got = "ok"
                except Exception as e:  # noqa: BLE001
                    got = type(e).__name__
                if got != want:
                    run.findings.append(Finding("failing-input", f"dltyped on top of a {kn} object, fault `{fn}`: {got}, expected {want}", Case(f"CALLABLE\t{kn}\t{fn}", "callable"), got, "", want))
    run.n_cases += n
    run.n_distinct_nontrivial += n
    run.dist["callables"] += n
    run.coverage["callable_kinds"] = list(kinds)
    # Warnings turned into errors (`-W error`, pytest's `filterwarnings = error`) and a rejection that takes a while to reach — a long
    # tuple whose offender comes near the end: what reaches the caller is still the DLTypeError of its kind with its report, not a
    # warning issued on the way out.  (The threshold of the timing warning is the one of the tree under test.)
    T = typing.Annotated[np.ndarray, dltype.FloatTensor["n 3"]]
    for k in (500, 4000):
        ns2 = {"T": T, "dltype": dltype}
        exec(compile(f"def many(xs: tuple[{', '.join(['T'] * k)}]) -> None:\n    return None\n", "<c08long>", "exec", dont_inherit=True), ns2)  # noqa: S102
        with warnings.catch_warnings():
            warnings.simplefilter("ignore")
            many = dltype.dltyped()(ns2["many"])
        good, odd = z(2, 3), z(2, 4)
        for pos in (k - 1, k // 2):
            vals = tuple(odd if i == pos else good for i in range(k))
            with warnings.catch_warnings():
                warnings.simplefilter("error")
                try:
                    many(vals)
                    got = "ok"
                except dltype.DLTypeShapeError as e:
                    got = f"DLTypeShapeError tensor={e._tensor_name} dim={e._index} expected={e._expected} actual={e._actual}"
                except BaseException as e:  # noqa: BLE001
                    got = f"{type(e).__name__}: {str(e)[:80]}"
            want = f"DLTypeShapeError tensor=xs[{pos}] dim=1 expected=3 actual=4"
            run.n_cases += 1
            run.n_distinct_nontrivial += 1
            run.dist["warnings-as-errors"] += 1
            if got != want:
                run.findings.append(Finding("failing-input", f"with warnings turned into errors, a tuple of {k} arrays whose element {pos} has a wrong axis is answered with {got!r}, expected {want!r}",
                                            Case(f"WERROR\ttuple[{k} x FloatTensor['n 3']]\toffender={pos}", "warnings-as-errors"), got, "", want))
