"""C10 — optional hints: None is skipped, everything else is still checked."""
from __future__ import annotations

import gen_ctx
import oracle
from checks import callcommon, ctxcommon
from framework import Case

PROP = "C10"
GENERATED = ['DtypeTables', 'Core', 'SrcHints', 'HintLoop', 'Wrapper', 'Classes', 'Decorate', 'SrcDecorate', 'SrcExpand', 'ClassDecor', 'Resolve', 'SrcSurface']  # generated files this check's tie depends on
LEAN_MODULES = ["Properties.C10", "Properties.Core", "Properties.Prov.Hints", "Properties.CoreHints", "Properties.CoreWrap", "Properties.CoreClasses", "Properties.CoreDecorate", "Properties.Prov.Decorate", "Properties.Prov.Expand", "Properties.CoreClassDecor", "Properties.CoreResolve", "Properties.Prov.Surface"]
RULE = (
    "exhaustive None / conforming / violating patterns over signatures with optional hints in parameter, tuple-element (every position), "
    "field and return position (<=3 positions), spelled `T | None`, Optional[T], `None | T`, Optional[Optional[T]]; unions with other "
    "alternatives in either order (`T | int`, `T | int | None`, `Union[int, T]`, `Union[None, float, T]`), Optional[tuple[...]] (its elements stay as optional as they are written) and unsupported base types for the decoration-time TypeError; presented as CTX, as function "
    "calls (also with the values as defaults the caller leaves out) and as NamedTuple / dataclass constructions. non-trivial = distinct line with at least one optional position"
)
RULE += " Also: None in place of a whole tuple whose hint has no `| None`."

SHAPES = [("a b", (2, 3), (2, 4)), ("a", (2,), (5,)), ("b 1", (3, 1), (3, 2))]


def cases(tier, rng, run):
    out = [Case(l, "corpus") for l in run.corpus_lines()]
    import itertools

    vals = ["N", "ok", "bad"]
    # positions: x (param), t[0], t[1] (tuple elements), return
    for opts in itertools.product([0, 1], repeat=4):
        for pattern in itertools.product(vals, repeat=4):
            # `FloatTensor!` = the annotation object is constructed with optional=True: only the HINT decides
            for spell, ctor in ([("1", ""), ("1", "!")] if tier == "quick" else [(s, c) for s in ("1", "4", "5", "7") for c in ("", "!")]):
                specs, vs = [], []
                for i, (o, p) in enumerate(zip(opts, pattern)):
                    sh, good, bad = SHAPES[i % 3]
                    specs.append(f"FloatTensor{ctor},{spell if o else '0'},{sh}")
                    vs.append("N" if p == "N" else f"T,0:float32,{'.'.join(map(str, good if p == 'ok' else bad))}")
                line = f"CALL\tfunc:pos\t-\t\tP|x|S|{specs[0]}|{vs[0]}\tP|t|T|{specs[1]};{specs[2]}|U:{vs[1]};{vs[2]}\tR|S|{specs[3]}|{vs[3]}"
                out.append(Case(line, "exh"))
                if rng.random() < 0.15:
                    out.append(Case(line.replace("\tP|", "\tPD|"), "exh-default"))
                    # the same for a NamedTuple / dataclass whose fields have these values as defaults: left out, or passed explicitly
                    fields = f"x|S|{specs[0]}|{vs[0]}\tP_|t|T|{specs[1]};{specs[2]}|U:{vs[1]};{vs[2]}"
                    for kindstyle in ("nt:kw", "dc:kw", "nt:pos", "dc:pos"):
                        for item in ("PD", "PE"):
                            out.append(Case(f"CALL\t{kindstyle}\t-\t\t{item}|" + fields.replace("P_", item), "exh-default"))
                if rng.random() < 0.25:
                    out.append(Case(f"CALL\tnt:kw\t-\t\tP|x|S|{specs[0]}|{vs[0]}\tP|t|T|{specs[1]};{specs[2]}|U:{vs[1]};{vs[2]}", "exh-nt"))
                    out.append(Case(f"CALL\tdc:pos\t-\t\tP|x|S|{specs[0]}|{vs[0]}\tP|t|T|{specs[1]};{specs[2]}|U:{vs[1]};{vs[2]}", "exh-dc"))
    # general unions / unsupported base
    # Optional[tuple[...]]: the elements are no more optional than under tuple[...] — None in an element position is refused,
    # every other element is checked as before
    for opts in itertools.product([0, 1], repeat=2):
        for pattern in itertools.product(vals, repeat=2):
            specs = [f"FloatTensor,{'1' if o else '0'},{SHAPES[i][0]}" for i, o in enumerate(opts)]
            vs = ["N" if p == "N" else f"T,0:float32,{'.'.join(map(str, SHAPES[i][1] if p == 'ok' else SHAPES[i][2]))}" for i, p in enumerate(pattern)]
            for kind in ("func:pos", "func:kw", "nt:pos", "dc:pos"):
                out.append(Case(f"CALL\t{kind}\t-\t\tP|t|TO|{specs[0]};{specs[1]}|U:{vs[0]};{vs[1]}", "opt-tuple"))
            out.append(Case(f"CALL\tfunc:pos\t-\t\tP|x|S|FloatTensor,0,a|T,0:float32,2\tR|TO|{specs[0]};{specs[1]}|U:{vs[0]};{vs[1]}", "opt-tuple"))
    # None in place of a WHOLE tuple whose hint has no `| None` (a function declared `-> tuple[A, B]` that forgets to return): never accepted
    for specs in ("FloatTensor,0,a;FloatTensor,0,b", "FloatTensor,0,a", "FloatTensor,1,a;FloatTensor,0,a 2", "FloatTensor,0,a;-"):
        for kind in ("func:pos", "func:kw", "nt:pos", "nt:kw", "dc:pos", "dc:kw"):
            out.append(Case(f"CALL\t{kind}\t-\t\tP|t|T|{specs}|N", "tuple-none"))
            out.append(Case(f"CALL\t{kind}\t-\t\tP|x|S|FloatTensor,0,a|T,0:float32,2\tP|t|T|{specs}|N", "tuple-none"))
            if kind.startswith("func"):
                out.append(Case(f"CALL\t{kind}\t-\t\tP|x|S|FloatTensor,0,a|T,0:float32,2\tR|T|{specs}|N", "tuple-none"))
                out.append(Case(f"CALL\t{kind}\t-\t\tPD|t|T|{specs}|N", "tuple-none"))
    for k in ["2", "3", "6", "8", "9"]:
        for v in ["N", "T,0:float32,2.3"]:
            out.append(Case(f"CALL\tfunc:pos\t-\t\tP|x|S|FloatTensor,{k},a b|{v}", "union"))
            out.append(Case(f"CALL\tfunc:pos\t-\t\tP|y|S|FloatTensor,0,a b|T,0:float32,2.3\tP|t|T|FloatTensor,{k},a;-|U:{v};X", "union"))
            out.append(Case(f"CALL\tnt:pos\t-\t\tP|x|S|FloatTensor,{k},a b|{v}", "union"))
            out.append(Case(f"CALL\tdc:pos\t-\t\tP|x|S|FloatTensor,{k},a b|{v}", "union"))
    for _ in range(3000 if tier == "quick" else 60000):
        c = gen_ctx.gen_ctx(rng, perturb=(0, 0, 1), tuple_p=0.4, ret_p=0.4)
        for p in [*c.params, *([c.ret] if c.ret else [])]:
            for s in p.slots:
                if s.cls is not None and rng.random() < 0.5:
                    s.optional = True
                    if rng.random() < 0.5:
                        s.value = ("N",)
        out.append(Case(c.ctx_line(), "gen-ctx", {"ctx": c}))
        out.append(Case(c.call_line("func", "pos"), "gen-call", {"ctx": c}))
        if rng.random() < 0.4:
            # the same values as DEFAULTS that the caller leaves out (`mask: T = None` without `| None` is still not optional)
            out.append(Case(c.call_line("func", rng.choice(["pos", "kw", "kwonly"]), omit=rng.randint(1, 4)), "gen-default", {"ctx": c}))
    return out


def judge(case, impl_out, spec):
    if case.tag == "union":
        kinds = [s.split(",")[1] for s in case.line.split("\t") for s in s.split("|") if s.count(",") >= 2 and s.split(",")[0].endswith("Tensor")]
        if not impl_out.startswith("decor pyexc TypeError"):
            return "a union offering a dltype tensor next to a non-None alternative (or an unsupported base type) is not refused with TypeError at decoration: " + impl_out
        return None
    if case.tag == "tuple-none":
        end = callcommon.end_of(impl_out)
        if end == "ok" or end.startswith("accept"):
            return "None was accepted in place of a tuple whose hint has no `| None`: " + impl_out
        return None
    c = ctxcommon.ctx_of(case)
    if c is None:
        return None
    end = callcommon.end_of(impl_out)
    accepted = end == "ok" or end.startswith("accept")
    if callcommon.unsupported_first(c):
        # None under a hint without `| None` (or a non-array) must never be accepted
        if accepted:
            return "None was accepted under a hint without `| None`"
        return None
    ents = c.entries()
    if ents is None:
        return None
    sp = oracle.spec_ctx(c.scope, ents, ctxcommon.accepts())
    if sp[0] == "violates" and accepted:
        return f"a violating tensor next to a skipped None was accepted ({sp[1]['why']})"
    if sp[0] == "conforms" and sp[1]["ordered"] and not accepted and len({e.name for e in ents}) == len(ents):
        return "None under an optional hint (or a conforming value) was rejected: " + impl_out
    return None


def nontrivial(case, impl_out):
    return ",1," in case.line or ",4," in case.line or ",5," in case.line or ",7," in case.line or case.tag in ("union", "tuple-none")
