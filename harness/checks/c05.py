"""C05 — dimension expressions evaluate to their arithmetic value."""
from __future__ import annotations

import re

import gens
import impl_call  # noqa: F401  (registers the CALL handler)
import pyref
from impl import parse_scope
from framework import Case

PROP = "C05"
GENERATED = ['ParserTables', 'OpSemantics', 'EvalLoop', 'SrcParser', 'TokLoop', 'DimFlags', 'ParseHelpers', 'ParseLoop', 'ShapeLoop', 'Core', 'DtypeTables']  # generated files this check's tie depends on
LEAN_MODULES = ["Properties.C05", "Properties.Tables", "Properties.CoreEval", "Properties.Prov.Parser", "Properties.CoreTok", "Properties.CoreParse", "Properties.CoreParseLoop", "Properties.CoreExpr", "Properties.CoreShape", "Properties.Core"]
THEOREMS: list[str] = []  # filled from Properties/C05.lean by the registry (see checks/registry.py)

RULE = (
    "corpus; exhaustive grammar strings with <=2 (quick) / <=3 (thorough) operator-function-group nodes over atoms {a,b,2,3} "
    "x scopes; seeded random grammar strings (size 3..9 quick, ..14 thorough, longer atoms, 30-digit literals); same-level chains; "
    "name= prefixes; expressions as axes of a dltyped function behind a scope provider (zero sizes included); identifier-free expressions as dimensions of an annotation checked against arrays; one expression object evaluated under a sequence of scopes (with an unbound name / a zero in between); non-trivial = distinct line whose string has >=1 operator and lies in the documented grammar (spec oracle)"
)
RULE += " Also: every finished evaluation yields an integer (exponents that come out negative under the scope); identifiers that begin / end with or contain a function name. Parsing after 60 rejected strings (errors inside parentheses) equals parsing before them."


def cases(tier, rng, run):
    out = []
    for l in run.corpus_lines():
        out.append(Case(l, "corpus"))
    kmax = 2 if tier == "quick" else 3
    memo = {}
    for k in range(kmax + 1):
        es = gens.exprs_exact(k, memo=memo)
        if k == 3:
            es = rng.sample(es, 60000)
        for e in es:
            out.append(Case(f"PARSE\t{e}", f"exh{k}"))
            for sc in (gens.SCOPES[:3] if k == kmax else gens.SCOPES):
                if pyref.feasible(e, parse_scope(sc)):
                    out.append(Case(f"EVAL\t{e}\t{sc}", f"exh{k}"))
                    if 1 <= k <= 2 and sc is gens.SCOPES[0] and "n" not in re.findall(r"[A-Za-z_]\w*", e):
                        # a named expression whose own name is already bound (to something else): the value is
                        # still the arithmetic value of the expression, not the remembered binding
                        out.append(Case(f"EVAL\tn={e}\t{sc};n:977", f"exh{k}"))
    # identifiers that merely BEGIN (or end) with the name of a function, or contain one: they are identifiers
    for e, sc in (("max_len*2", "max_len:3"), ("n-min_size", "n:9;min_size:4"), ("isqrt(isqrt_in)", "isqrt_in:17"), ("out=(maxpool-1)/2", "maxpool:9"), ("minimum+1", "minimum:1"),
                  ("min(mina,maxb)", "mina:2;maxb:5"), ("min2*max3", "min2:2;max3:3"), ("max_len", "max_len:7"), ("isqrtn^2", "isqrtn:3"), ("amin+bmax", "amin:1;bmax:2"),
                  ("max(maximum,min_)", "maximum:4;min_:6"), ("n=minutes/60", "minutes:150"), ("imax-imin", "imax:9;imin:2"), ("isqrt(max_)+min(minx,1)", "max_:16;minx:5")):
        out.append(Case(f"PARSE\t{e}", "fn-prefix"))
        out.append(Case(f"EVAL\t{e}\t{sc}", "fn-prefix"))
    # exponents that come out negative under the scope (`a-b` with a < b): the result is still an integer
    for e in ("2^(a-b)", "b*2^(a-b)", "b/2^(a-b)", "isqrt(4^(a-b))", "1^(a-b)", "a^(a-b)", "(a-b)^(a-b)", "2^(a-b)^2", "max(2^(a-b),1)", "n=3*2^(a-b)+1", "2^(0-a)*b+b"):
        for sc in ("a:1;b:2", "a:1;b:3", "a:2;b:4", "a:3;b:5", "a:0;b:1"):
            out.append(Case(f"EVAL\t{e}\t{sc}", "negexp"))
        out.append(Case(f"EVALSEQ\t{e}\ta:3;b:1|a:1;b:3|a:2;b:2", "negexp"))
    # an expression without any identifier is still an expression: as a dimension of an annotation it demands its arithmetic value
    # (not its first number) of the tensor — the path through TensorTypeBase / DLTypeContext, not only `evaluate`
    import itertools

    lits = ["2", "3", "4", "16"]
    forms = [f"{x}{o}{y}" for x, y in itertools.product(lits, repeat=2) for o in "+-*/^"] + [f"isqrt({x})" for x in lits] \
        + [f"{f}({x},{y})" for f in ("min", "max") for x, y in itertools.product(lits[:3], repeat=2)] + ["7-2-1", "2*3+1", "(2+3)*2", "2^3^2", "isqrt(16)+1"]
    for e in forms:
        if not pyref.feasible(e, {}):
            continue
        try:
            v = pyref.ev(pyref.parse(e), {})
        except Exception:  # noqa: BLE001
            continue
        if not 0 <= v <= 64:
            continue
        first = int(re.findall(r"\d+", e)[0])
        for dim in (e, "k=" + e):
            for size in {v, first, v + 1}:
                out.append(Case(f"CTX\t\tA|x|FloatTensor,0,b {dim}|T,0:float32,2.{size}\tV", "litexpr", {"want": size == v}))
                out.append(Case(f"CTX\t\tA|x|FloatTensor,0,{dim} b|T,0:float32,{size}.2\tA|y|FloatTensor,0,b|T,1:float32,2\tV", "litexpr", {"want": size == v}))
    n = 30000 if tier == "quick" else 400000
    atoms = ["a", "b", "c", "x_1", "dim", "1", "2", "3", "07", "10", "123456789012345678901234567890"]
    for _ in range(n):
        sz = rng.randint(3, 9 if tier == "quick" else 14)
        e = gens.rand_expr(rng, sz, atoms) if rng.random() < 0.75 else gens.chain(rng, rng.randint(2, 8), atoms, rng.choice([None, ["+", "-"], ["*", "/"], ["^"], ["-", "/"]]))
        named = None
        if rng.random() < 0.15:
            named = rng.choice(["n", "out", "x_2"])
            e = named + "=" + e
        if "^" in e and rng.random() < 0.7:
            # keep exponent towers small enough to evaluate
            sc = rng.choice(["a:2;b:3;c:1;x_1:2;dim:2", "a:1;b:2;c:0;x_1:1;dim:3"])
            e = e.replace("123456789012345678901234567890", "3").replace("10", "2").replace("07", "1")
        else:
            sc = rng.choice(gens.SCOPES)
        if e.count("^") > 3:
            e = e.replace("^", "*", e.count("^") - 2)
        if named and rng.random() < 0.5:
            sc = sc + f";{named}:{rng.choice([0, 1, 4, 977])}"
        if not pyref.feasible(e, parse_scope(sc)):
            continue
        out.append(Case(f"EVAL\t{e}\t{sc}", "rand"))
        if named is None and rng.random() < 0.2:
            # the same expression as an axis of a dltyped function whose names come from a scope provider (zero sizes included):
            # the axis must have the arithmetic value, whatever path the names take into the scope
            try:
                v = pyref.ev(pyref.parse(e), parse_scope(sc))
            except Exception:  # noqa: BLE001
                v = None
            if v is not None and 0 <= v <= 48:
                sc0 = ";".join(f"{k}:{0 if (x == 0 or rng.random() < 0.15) else x}" for k, x in parse_scope(sc).items())
                try:
                    v0 = pyref.ev(pyref.parse(e), parse_scope(sc0)) if pyref.feasible(e, parse_scope(sc0)) else None
                except Exception:  # noqa: BLE001
                    v0 = None
                for scx, vx in ((sc, v), (sc0, v0)):
                    if vx is not None and 0 <= vx <= 48:
                        out.append(Case(f"CALL\tfunc:pos\tobj\t{scx}\tP|x|S|FloatTensor,0,q_ {e}|T,0:float32,2.{vx}", "provcall", {"want": True}))
                        out.append(Case(f"CALL\tfunc:kw\tobj\t{scx}\tP|x|S|FloatTensor,0,{e} q_|T,0:float32,{vx + 1}.2", "provcall", {"want": False}))
        if rng.random() < 0.25:
            # the same expression object evaluated several times: an evaluation that fails half-way (an unbound name, a zero
            # divisor) must leave nothing behind for the evaluations that follow
            full = parse_scope(sc)
            used = [k for k in full if re.search(rf"(?<![A-Za-z0-9_]){re.escape(k)}(?![A-Za-z0-9_])", e.split("=", 1)[-1])]
            seq = [sc]
            if used:
                k = rng.choice(used)
                seq.append(";".join(f"{a}:{b}" for a, b in full.items() if a != k))
                z = ";".join(f"{a}:{0 if a == k else b}" for a, b in full.items())
                if pyref.feasible(e, parse_scope(z)):
                    seq.append(z)
                if len(full) >= 2:
                    # the same sizes under other names / in another order (a result remembered for a scope is for THAT scope)
                    ks, vs = list(full), list(full.values())
                    for perm in (dict(zip(ks, vs[1:] + vs[:1])), dict(reversed(list(full.items()))), dict(zip(ks, reversed(vs)))):
                        ps = ";".join(f"{a}:{b}" for a, b in perm.items())
                        if pyref.feasible(e, parse_scope(ps)):
                            seq.append(ps)
            rng.shuffle(seq)
            seq.append(sc)
            out.append(Case(f"EVALSEQ\t{e}\t{'|'.join(seq)}", "seq"))
        if rng.random() < 0.2:
            out.append(Case(f"PARSE\t{e}", "rand"))
    return out


_POST = re.compile(r"id=(.*?) post=(\[.*?\])(?: |$)")


def judge(case, impl_out, spec):
    op = case.line.split("\t")[0]
    if case.tag == "provcall":
        ok = impl_out.endswith(" ok")
        if impl_out.startswith("decor") or "unmodelled" in impl_out:
            return None
        if case.meta["want"] and not ok:
            return "an axis whose size is the arithmetic value of its expression under the provider's sizes is refused: " + impl_out
        if not case.meta["want"] and ok:
            return "an axis whose size is NOT the arithmetic value of its expression under the provider's sizes is accepted"
        return None
    if case.tag == "litexpr":
        if case.meta["want"] and not impl_out.startswith("accept"):
            return "an axis whose size is the arithmetic value of its (identifier-free) expression is refused: " + impl_out
        if not case.meta["want"] and impl_out.startswith("accept"):
            return "an axis whose size is NOT the arithmetic value of its (identifier-free) expression is accepted"
        return None
    if op in ("EVAL", "EVALSEQ"):
        # whatever the scope, an evaluation that finishes yields an INTEGER (also when an exponent is negative: there the arithmetic of the
        # grammar has no integer value and nothing more is demanded here — but a fraction is never the size of an axis)
        for o in impl_out.split(" ## "):
            if o.startswith("val ") and not re.fullmatch(r"-?\d+", o[4:]):
                return f"the evaluation yields {o[4:]!r}, which is not an integer"
    if not spec.startswith("G"):
        return None
    if impl_out.startswith("err SyntaxError"):
        return "a string of the documented grammar is refused with SyntaxError"
    if op == "EVALSEQ":
        specs, outs = spec.split(" ## "), impl_out.split(" ## ")
        if len(specs) != len(outs):
            return f"{len(specs)} evaluations asked, {len(outs)} results"
        for i, (sp, o) in enumerate(zip(specs, outs)):
            if sp.startswith("G val ") and o != "val " + sp[6:]:
                return f"evaluation {i + 1} of the same expression object: {o!r} differs from the arithmetic value {sp[6:]} (the evaluations before it: {outs[:i]})"
        return None
    if op == "EVAL":
        if spec.startswith("G val "):
            if impl_out != "val " + spec[6:]:
                return f"value differs from the arithmetic value {spec[6:]}"
        return None
    if op == "PARSE" and spec.startswith("G expr "):
        m, i = _POST.search(spec), _POST.search(impl_out)
        if not impl_out.startswith("ok ") or i is None:
            return "grammar string not parsed"
        if m.group(1) != i.group(1) or m.group(2) != i.group(2):
            return f"parsed program/identifier differs from the post-order of the documented reading: {m.group(0)}"
    return None


def nontrivial(case, impl_out):
    return any(c in case.line.split("\t")[1] for c in "+-*/^(")


def known_region(case, impl_out, model_out, spec):
    return None


def custom(run, tier):
    """Parsing is a function of the string: what was parsed BEFORE — rejected strings whose error sits inside parentheses or a function
    argument included — decides nothing.  60 malformed strings of that kind (error at nesting depth 1-4), then every valid nested string
    of a small family must parse to the program it parsed to before."""
    import impl
    from framework import Finding

    valid = ["(a+b)*2", "min(a,(b+1)*2)", "((a))", "isqrt((a+b)*(a-b+9))", "max(min(a,b),isqrt(a*a))", "n=((a+1)*(b+1))/2", "(((a+1)+1)+1)+1", "min(max(a,1),max(b,1))",
             "a*(b+(a*(b+(a*(b+1)))))", "isqrt(isqrt(isqrt(a+255)))"]
    before = {s: impl.handle(f"PARSE\t{s}") for s in valid}
    bad_inner = ["(a+b%)", "min((a+2x),b)", "((a+))", "(((a$)))", "max(a,(b+?))", "isqrt((a b))", "((((a+#))))", "min(max(a,(b!)),1)", "(a+(b+(c+(d~))))", "isqrt(min(a,(b+@)))"]
    n = 0
    for rounds in range(6):
        for b in bad_inner:
            impl.handle(f"PARSE\t{b}")
            n += 1
    for s, was in before.items():
        now = impl.handle(f"PARSE\t{s}")
        n += 1
        if now != was:
            run.findings.append(Finding("failing-input", f"after {6 * len(bad_inner)} rejected strings (errors inside parentheses / function arguments) the valid string {s!r} parses to {now!r}, "
                                        f"before them to {was!r}: parsing depends on what was parsed before", Case(f"PARSE\t{s}", "after-rejected"), now, "", was))
    run.n_cases += n
    run.n_distinct_nontrivial += len(valid)
    run.dist["after-rejected-strings"] += n
