"""C11 — tuple hints are checked element by element in the shared context."""
from __future__ import annotations

import itertools

import impl_hist  # noqa: F401

import oracle
from checks import callcommon, ctxcommon
from framework import Case

PROP = "C11"
GENERATED = ['DtypeTables', 'Core', 'SrcHints', 'SrcDecorate', 'HintLoop', 'Wrapper', 'Classes', 'SrcExpand', 'Resolve', 'SrcSurface']  # generated files this check's tie depends on
LEAN_MODULES = ["Properties.C11", "Properties.Core", "Properties.Prov.Hints", "Properties.Prov.Decorate", "Properties.CoreHints", "Properties.CoreWrap", "Properties.CoreClasses", "Properties.Prov.Expand", "Properties.CoreResolve", "Properties.Prov.Surface"]
RULE = (
    "exhaustive over flat tuple hints of length 1..4 (quick) / 1..5 (thorough) with annotated / plain positions mixed (plain = `int` or `Annotated[int, 'count']`), as parameter and as "
    "return, each element conforming, violating its own literal, or violating a binding shared with another parameter (a), values of the "
    "declared length; a rejected call with elements waiting behind the failing one followed by conforming calls; one array object at two annotated positions (the second conforming or violating its own annotation); judged by the oracle over the flattened entry list with display names p, p[1], ... non-trivial = distinct line "
    "with >=1 annotated tuple position"
)
RULE += " Also: plain positions holding sequences (a shape, (), tuples / lists of arrays) and spelled `int | str` / `int | None`; two offending elements (the earlier position is reported); tuple subclasses and lists as values. Plain positions spelled with a NewType / TypeVar / LiteralString."
ELEMS = [("FloatTensor,0,a 2", (3, 2), (3, 5), (4, 2)), ("IntTensor,0,a", (3,), None, (5,)), ("-", None, None, None)]


def cases(tier, rng, run):
    out = [Case(l, "corpus") for l in run.corpus_lines()]
    maxlen = 4 if tier == "quick" else 5
    for n in range(1, maxlen + 1):
        for kinds in itertools.product(range(3), repeat=n):
            if all(k == 2 for k in kinds):
                continue
            for fault_pos in [None, *range(n)]:
                for fault_kind in ("lit", "bind"):
                    if fault_pos is None and fault_kind == "bind":
                        continue
                    specs, vals = [], []
                    ok = True
                    for i, k in enumerate(kinds):
                        spec, good, badlit, badbind = ELEMS[k]
                        specs.append(spec)
                        if k == 2:
                            vals.append(rng.choice(["X", "N", "XT", "XE", "XA", "XL"]))   # (a plain position may hold anything, sequences of arrays included)
                            if fault_pos == i:
                                ok = False
                            continue
                        dtn = "0:float32" if k == 0 else "1:int32"
                        sh = good
                        if fault_pos == i:
                            sh = badlit if fault_kind == "lit" else badbind
                            if sh is None:
                                ok = False
                                break
                        vals.append(f"T,{dtn},{'.'.join(map(str, sh))}")
                    if not ok:
                        continue
                    # an optional element given None must not end the checking of the later elements
                    if rng.random() < 0.35:
                        cand = [i for i, k in enumerate(kinds) if k != 2 and i != fault_pos and i < n - 1]
                        if cand:
                            j = rng.choice(cand)
                            c0, _o, sh0 = specs[j].split(",", 2)
                            specs[j] = f"{c0},{rng.choice('1457')},{sh0}"   # `T | None`, Optional[T], `None | T`, Optional[Optional[T]]
                            vals[j] = "N" if rng.random() < 0.7 else "X"   # (X: neither None nor an array — optional does not excuse that)
                            others = [i for i, k in enumerate(kinds) if k != 2 and i != j and i != fault_pos]
                            if others and rng.random() < 0.3:
                                # ... and None at a position whose hint has no `| None`: that element is not optional because another one is
                                vals[rng.choice(others)] = "N"
                    # any annotated element may be written as an optional hint (in any of its spellings) and still hold an array,
                    # which is then checked exactly as without `| None`
                    for i2, sp in enumerate(specs):
                        if sp != "-" and sp.split(",")[1] == "0" and rng.random() < 0.25:
                            c0, _o, sh0 = sp.split(",", 2)
                            specs[i2] = f"{c0},{rng.choice('1457')},{sh0}"
                    # a plain position may also be spelled `Annotated[int, <metadata that is no dltype annotation>]`
                    specs = [(rng.choice(["-a", "-u", "-o", "-n", "-v", "-s"]) if sp == "-" and rng.random() < 0.6 else sp) for sp in specs]   # (… or a PEP 604 union of plain types: `int | str`, `int | None`)
                    p = f"P|t|T|{';'.join(specs)}|U:{';'.join(vals)}"
                    first = "P|x|S|FloatTensor,0,a|T,2:float32,3"
                    out.append(Case(f"CALL\tfunc:pos\t-\t\t{first}\t{p}", f"param{n}"))
                    if rng.random() < 0.2:
                        # the value of a tuple-hinted position need not be an exact tuple: an instance of a tuple SUBCLASS (a NamedTuple,
                        # what torch.max(x, dim) returns) or a list holds its elements position by position all the same
                        seq = rng.choice(["S:", "L:"])
                        out.append(Case(f"CALL\tfunc:pos\t-\t\t{first}\tP|t|T|{';'.join(specs)}|{seq}{';'.join(vals)}", f"param{n}-{seq[0]}"))
                        out.append(Case(f"CALL\tfunc:kw\t-\t\t{first}\tR|T|{';'.join(specs)}|{seq}{';'.join(vals)}", f"ret{n}-{seq[0]}"))
                    out.append(Case(f"CALL\tfunc:kw\t-\t\t{first}\tR|T|{';'.join(specs)}|U:{';'.join(vals)}", f"ret{n}"))
                    if fault_kind == "lit" and n <= 3:
                        # the tuple hint is the ONLY hinted thing of the function (plain types may come first inside it)
                        out.append(Case(f"CALL\tfunc:pos\t-\t\t{p}", f"soleparam{n}"))
                        out.append(Case(f"CALL\tfunc:kw\t-\t\tP|k|S|-|X\tR|T|{';'.join(specs)}|U:{';'.join(vals)}", f"soleret{n}"))
                    if fault_kind == "lit" and rng.random() < 0.3:
                        out.append(Case(f"CALL\tnt:pos\t-\t\t{first}\t{p}", f"nt{n}"))
                        out.append(Case(f"CALL\tdc:kw\t-\t\t{first}\t{p}", f"dc{n}"))
    # TWO offending elements: the one at the earlier position is the one reported, whatever kind of fault each has — an earlier fault that
    # only the shared bindings reveal (its axis contradicts `a` of the first parameter / a name repeated inside it) comes before a later
    # one that the element alone reveals (dtype, rank, a literal axis): elements are checked position by position, in order
    sym_bad = [("FloatTensor,0,a 2", "T,0:float32,4.2"), ("FloatTensor,0,b b", "T,0:float32,2.3"), ("IntTensor,0,a", "T,1:int32,5"), ("FloatTensor,0,a+1", "T,0:float32,3")]
    str_bad = [("FloatTensor,0,a 2", "T,0:float32,3.5"), ("FloatTensor,0,a 2", "T,1:int32,3.2"), ("FloatTensor,0,a 2", "T,0:float32,3"), ("IntTensor,0,a", "T,0:float32,3"), ("FloatTensor,0,2 2", "T,0:float32,2.2.2")]
    ok_el = ("FloatTensor,0,a 2", "T,0:float32,3.2")
    first = "P|x|S|FloatTensor,0,a|T,2:float32,3"

    def nm_of(name, i):
        return name if i == 0 else f"{name}[{i}]"   # (the element at position 0 is reported under the bare name)

    for n in (2, 3, 4):
        for i in range(n):
            for j in range(i + 1, n):
                for (s1, v1), (s2, v2) in [*itertools.product(sym_bad, str_bad), *itertools.product(str_bad[:2], sym_bad[:2])]:
                    specs, vals = [ok_el[0]] * n, [ok_el[1]] * n
                    specs[i], vals[i], specs[j], vals[j] = s1, v1, s2, v2
                    body = f"T|{';'.join(specs)}|U:{';'.join(vals)}"
                    for line, nm in ((f"CALL\tfunc:pos\t-\t\t{first}\tP|t|{body}", nm_of("t", i)), (f"CALL\tfunc:kw\t-\t\t{first}\tR|{body}", nm_of("return", i)),
                                     (f"CALL\tnt:pos\t-\t\t{first}\tP|t|{body}", nm_of("t", i)), (f"CALL\tdc:kw\t-\t\t{first}\tP|t|{body}", nm_of("t", i))):
                        if n == 4 and not line.startswith("CALL\tfunc"):
                            continue
                        out.append(Case(line, "twofaults", {"first": nm}))
    # ... and a tensor parameter in front of the tuple: its fault (revealed by its own repeated name) comes before any element's
    for (s2, v2) in str_bad:
        out.append(Case(f"CALL\tfunc:pos\t-\t\tP|x|S|FloatTensor,0,b b|T,0:float32,2.3\tP|t|T|{ok_el[0]};{s2}|U:{ok_el[1].replace('3.2', '2.2')};{v2}", "twofaults", {"first": "x"}))
    # the very same array OBJECT at two annotated positions (impl.make_tensor hands out one object per dtype and shape): the
    # second occurrence is checked against its own annotation like any other value
    same = "T,0:float32,3.2"
    for n in (2, 3, 4):
        for i in range(n):
            for j in range(i + 1, n):
                for second in ("FloatTensor,0,2 a", "FloatTensor,0,a 2", "IntTensor,0,a 2", "FloatTensor,0,a"):
                    specs = ["-"] * n
                    vals = ["X"] * n
                    specs[i], vals[i] = "FloatTensor,0,a 2", same
                    specs[j], vals[j] = second, same
                    p = f"P|t|T|{';'.join(specs)}|U:{';'.join(vals)}"
                    out.append(Case(f"CALL\tfunc:pos\t-\t\t{p}", "sameobj"))
                    out.append(Case(f"CALL\tfunc:kw\t-\t\tP|k|S|-|X\tR|T|{';'.join(specs)}|U:{';'.join(vals)}", "sameobj"))
                    out.append(Case(f"CALL\tfunc:pos\t-\t\tP|x|S|FloatTensor,0,a 2|{same}\t{p}", "sameobj"))
                    out.append(Case(f"CALL\tfunc:pos\t-\t\tP|x|S|{second}|{same}\tR|T|{';'.join(specs)}|U:{';'.join(vals)}", "sameobj"))
    # the same annotation OBJECT used as a plain hint and inside a tuple hint (caches keyed by value must not mix them up)
    t2, t3 = "T,0:float32,2", "T,0:float32,3"
    for first, second in (("x=T0:0|(T0:0)", "x=(T0:0)|T0:0"), ("x=(T0:0)|T0:0", "x=T0:0|(T0:0)"), ("x=T0:0|(T0:0+T0:0)", "x=(T0:0)|(T0:0)")):
        for bad in (False, True):
            steps = ["A|T0|FloatTensor,0,a"]
            calls = []
            for fid, sig in (("f", first), ("g", second)):
                ps, ret = sig.split("|")
                steps.append(f"D|{fid}|-|{ps}|{ret}|-")
                xv = f"U:{t2}" if ps.endswith(")") else t2
                rv = t3 if bad else t2
                n_ret = ret.count("T0")
                retv = ("U:" + "+".join([rv] * n_ret)) if ret.startswith("(") else rv
                calls.append(f"C|{fid}|x|{xv}|{retv}")
            out.append(Case("HIST\t" + "\t".join(steps + calls + calls), "alias"))
    # a rejected call whose failing element has further elements waiting behind it, then valid calls: what was left unchecked by
    # the rejected call is nobody else's business
    g2, g3, b2 = "T,0:float32,2.2", "T,0:float32,3.2", "T,0:float32,2.5"
    for ret in (False, True):
        for k in (2, 3):
            hint = "(" + "+".join(["T0:0"] * k) + ")"
            steps = ["A|T0|FloatTensor,0,a 2", f"D|f|-|x=T1:0|{hint}|-" if ret else f"D|f|-|t={hint}|-|-", "A|T1|FloatTensor,0,a 2"]
            steps = [steps[0], steps[2], steps[1]]
            bad = "U:" + "+".join([b2] + [g3] * (k - 1))
            good = "U:" + "+".join([g2] * k)
            calls = [f"C|f|x|{g2}|{bad}", f"C|f|x|{g2}|{good}", f"C|f|x|{g2}|{good}"] if ret else [f"C|f|t|{bad}|-", f"C|f|t|{good}|-", f"C|f|t|{good}|-"]
            out.append(Case("HIST\t" + "\t".join(steps + calls), "leftover"))
    return out


def judge(case, impl_out, spec):
    if case.tag == "leftover":
        parts = impl_out.split(" ## ")[:-1]
        if len(parts) != 3 or " reject shape" not in " " + parts[0]:
            return "the tuple whose first element violates its literal axis is not rejected with the shape error: " + impl_out
        for k, part in enumerate(parts[1:], 1):
            if part != "calls=1 ok":
                return f"after a rejected call with elements still waiting behind the failing one, conforming call #{k} gives {part!r}"
        return None
    if case.tag == "alias":
        bad = "T,0:float32,3" in case.line
        for part in impl_out.split(" ## ")[:-1]:
            if not bad and part != "calls=1 ok":
                return "a conforming call through a hint that shares its annotation object with another hint is rejected: " + part
            if bad and not part.startswith("calls=1 reject shape"):
                return "a violating tuple element was not reported as a shape error of its position: " + part
        return None
    if case.tag == "twofaults":
        end = callcommon.end_of(impl_out)
        want = case.meta.get("first") or ""
        if not end.startswith("reject"):
            return "two tuple elements violate their annotations, but: " + impl_out
        named = end.split(" tensor=")[1].split(" ")[0] if " tensor=" in end else "?"
        if want and named != want:
            return f"two elements violate; the one at the earlier position is {want}, but the report names {named}: elements are not checked position by position in order ({end})"
        return None
    c = ctxcommon.ctx_of(case)
    if c is None:
        return None
    end = callcommon.end_of(impl_out)
    accepted = end == "ok"
    if callcommon.unsupported_first(c):
        if accepted:
            return "None at an annotated tuple position without `| None`, or a value that is neither None nor an array, was accepted"
        return None
    ents = c.entries()
    if ents is None:
        return None
    sp = oracle.spec_ctx(c.scope, ents, ctxcommon.accepts())
    if sp[0] == "conforms" and not accepted:
        return "tuple elements conform (bindings shared with the other parameter) but the call is rejected: " + impl_out
    if sp[0] == "violates":
        if accepted:
            return f"a violating tuple element was accepted ({sp[1]['why']})"
        # the report must name the element by position
        why = sp[1]["why"]
        if end.startswith("reject") and " tensor=" in end:
            named = end.split(" tensor=")[1].split(" ")[0]
            if named not in [e.name for e in ents]:
                return f"the report names {named!r}, not an annotated position of this call"
    return None


def nontrivial(case, impl_out):
    return True
