"""C11 — tuple hints are checked element by element in the shared context."""
from __future__ import annotations

import itertools

import oracle
from checks import callcommon, ctxcommon
from framework import Case

PROP = "C11"
LEAN_MODULES = ["Properties.C11"]
RULE = (
    "exhaustive over flat tuple hints of length 1..4 (quick) / 1..5 (thorough) with annotated / plain positions mixed, as parameter and as "
    "return, each element conforming, violating its own literal, or violating a binding shared with another parameter (a), values of the "
    "declared length; judged by the oracle over the flattened entry list with display names p, p[1], ... non-trivial = distinct line "
    "with >=1 annotated tuple position"
)
ELEMS = [("FloatTensor,0,a 2", (3, 2), (3, 5), (4, 2)), ("IntTensor,0,a", (3,), None, (5,)), ("-", None, None, None)]


def cases(tier, rng, run):
    out = [Case(l, "corpus") for l in run.corpus_lines()]
    maxlen = 4 if tier == "quick" else 5
    for n in range(1, maxlen + 1):
        for kinds in itertools.product(range(3), repeat=n):
            if all(k == 2 for k in kinds):
                continue
            for fault_pos in [None, *range(n)]:
                for fault_kind in ("lit", "bind"):
                    if fault_pos is None and fault_kind == "bind":
                        continue
                    specs, vals = [], []
                    ok = True
                    for i, k in enumerate(kinds):
                        spec, good, badlit, badbind = ELEMS[k]
                        specs.append(spec)
                        if k == 2:
                            vals.append(rng.choice(["X", "N"]))
                            if fault_pos == i:
                                ok = False
                            continue
                        dtn = "0:float32" if k == 0 else "1:int32"
                        sh = good
                        if fault_pos == i:
                            sh = badlit if fault_kind == "lit" else badbind
                            if sh is None:
                                ok = False
                                break
                        vals.append(f"T,{dtn},{'.'.join(map(str, sh))}")
                    if not ok:
                        continue
                    p = f"P|t|T|{';'.join(specs)}|U:{';'.join(vals)}"
                    first = "P|x|S|FloatTensor,0,a|T,2:float32,3"
                    out.append(Case(f"CALL\tfunc:pos\t-\t\t{first}\t{p}", f"param{n}"))
                    out.append(Case(f"CALL\tfunc:kw\t-\t\t{first}\tR|T|{';'.join(specs)}|U:{';'.join(vals)}", f"ret{n}"))
                    if fault_kind == "lit" and rng.random() < 0.3:
                        out.append(Case(f"CALL\tnt:pos\t-\t\t{first}\t{p}", f"nt{n}"))
                        out.append(Case(f"CALL\tdc:kw\t-\t\t{first}\t{p}", f"dc{n}"))
    return out


def judge(case, impl_out, spec):
    c = ctxcommon.ctx_of(case)
    if c is None:
        return None
    ents = c.entries()
    if ents is None:
        return None
    sp = oracle.spec_ctx(c.scope, ents, ctxcommon.accepts())
    end = callcommon.end_of(impl_out)
    accepted = end == "ok"
    if sp[0] == "conforms" and not accepted:
        return "tuple elements conform (bindings shared with the other parameter) but the call is rejected: " + impl_out
    if sp[0] == "violates":
        if accepted:
            return f"a violating tuple element was accepted ({sp[1]['why']})"
        # the report must name the element by position
        why = sp[1]["why"]
        if end.startswith("reject") and " tensor=" in end:
            named = end.split(" tensor=")[1].split(" ")[0]
            if named not in [e.name for e in ents]:
                return f"the report names {named!r}, not an annotated position of this call"
    return None


def nontrivial(case, impl_out):
    return True
