"""C15 — verdicts depend on arrays only through rank, sizes and dtype category."""
from __future__ import annotations

import copy
import itertools

import gen_ctx
from checks import callcommon
from framework import Case, Finding

PROP = "C15"
GENERATED = ['DtypeTables']  # generated files this check's tie depends on
LEAN_MODULES = ["Properties.C15"]
RULE = (
    "seeded contexts (1-3 arrays, zero-sized and zero-rank included, dtypes from the shared categories bool / int8-64 / uint8-64 / "
    "float16-64, 0-1 perturbations) re-run under ALL 3^n assignments of a library in {numpy, torch, jax} to their arrays, directly and "
    "through a dltyped function; verdict and report (dtype spelled as category) must be identical across the assignments. "
    "non-trivial = distinct context with >=2 arrays"
)


def relib(c: gen_ctx.Ctx, libs) -> gen_ctx.Ctx:
    c2 = copy.deepcopy(c)
    i = 0
    for p in [*c2.params, *([c2.ret] if c2.ret else [])]:
        for s in p.slots:
            if s.value[0] == "T":
                nm = s.value[1].split(":")[1]
                s.value = ("T", f"{libs[i]}:{nm}", s.value[2])
                i += 1
    return c2


def cases(tier, rng, run):
    out = []
    n = 700 if tier == "quick" else 12000
    gi = 0
    while gi < n:
        c = gen_ctx.gen_ctx(rng, max_tensors=3, tuple_p=0.15, ret_p=0.2, perturb=(0, 0, 1))
        k = sum(1 for p in [*c.params, *([c.ret] if c.ret else [])] for s in p.slots if s.value[0] == "T")
        if k == 0 or k > 3:
            continue
        gi += 1
        for libs in itertools.product([0, 1, 2], repeat=k):
            c2 = relib(c, libs)
            out.append(Case(c2.ctx_line(), "ctx", {"group": (gi, "ctx"), "ctx": c2}))
            if gi % 3 == 0:
                out.append(Case(c2.call_line("func", "pos"), "call", {"group": (gi, "call"), "ctx": c2}))
    return out


def judge(case, impl_out, spec):
    return None


def second_pass(run, cases_, impl_out):
    groups: dict = {}
    for c, io in zip(cases_, impl_out):
        groups.setdefault(c.meta["group"], []).append((c, io))
    for g, items in groups.items():
        outs = {io for _, io in items}
        if len(outs) > 1:
            a = items[0]
            b = next(x for x in items if x[1] != a[1])
            run.findings.append(Finding("failing-input", f"the verdict depends on the library of the arrays: {a[1]!r} vs {b[1]!r} for {b[0].line!r}", a[0], a[1], "", ""))
    return []


def nontrivial(case, impl_out):
    return case.line.count("T,") >= 2
