"""C15 — verdicts depend on arrays only through rank, sizes and dtype category."""
from __future__ import annotations

import copy
import itertools

import gen_ctx
from checks import callcommon
from framework import Case, Finding

PROP = "C15"
GENERATED = ['DtypeTables', 'Core', 'SrcShape', 'ShapeLoop', 'SrcExpand', 'Errors']  # generated files this check's tie depends on
LEAN_MODULES = ["Properties.C15", "Properties.Core", "Properties.Prov.Shape", "Properties.CoreShape", "Properties.Prov.Expand", "Properties.CoreErrors"]
RULE = (
    "seeded contexts (1-3 arrays, zero-sized and zero-rank included, dtypes from the shared categories bool / int8-64 / uint8-64 / "
    "float16-64, 0-1 perturbations) re-run under ALL 3^n assignments of a library in {numpy, torch, jax} to their arrays, directly and "
    "through a dltyped function; verdict and report (dtype spelled as category) must be identical across the assignments. "
    "plus a fresh-interpreter pass: every class x shared dtype x library in three library orders, and jax arrays as they appear under jit / make_jaxpr. "
    "non-trivial = distinct context with >=2 arrays"
)
RULE += " Also: the full text of every rejection that names no dtype compared across library assignments; one name registered twice under every pair of libraries; arrays changed in place between two checks."


def relib(c: gen_ctx.Ctx, libs) -> gen_ctx.Ctx:
    c2 = copy.deepcopy(c)
    i = 0
    for p in [*c2.params, *([c2.ret] if c2.ret else [])]:
        for s in p.slots:
            if s.value[0] == "T":
                nm = s.value[1].split(":")[1]
                s.value = ("T", f"{libs[i]}:{nm}", s.value[2])
                i += 1
    return c2


def cases(tier, rng, run):
    out = []
    n = 700 if tier == "quick" else 12000
    gi = 0
    while gi < n:
        c = gen_ctx.gen_ctx(rng, max_tensors=3, tuple_p=0.15, ret_p=0.2, perturb=(0, 0, 1))
        k = sum(1 for p in [*c.params, *([c.ret] if c.ret else [])] for s in p.slots if s.value[0] == "T")
        if k == 0 or k > 3:
            continue
        gi += 1
        for libs in itertools.product([0, 1, 2], repeat=k):
            c2 = relib(c, libs)
            out.append(Case(c2.ctx_line(), "ctx", {"group": (gi, "ctx"), "ctx": c2}))
            if gi % 3 == 0:
                out.append(Case(c2.call_line("func", ["pos", "kw", "kwonly", "posonly"][gi % 4], omit=(gi // 4) % 3), "call", {"group": (gi, "call"), "ctx": c2}))
    # one NAME registered twice in a context (two tuple positions can never collide, but a context fed directly — or a model field
    # validated again — can): the second registration is refused whatever the libraries of the two arrays are
    for dt in ("float32", "int64", "bool", "uint8", "float16"):
        for shape2 in ("2.3", "3.2"):
            gi += 1
            for l1, l2 in itertools.product([0, 1, 2], repeat=2):
                out.append(Case(f"CTX\t\tA|x|TensorTypeBase,0,a b|T,{l1}:{dt},2.3\tA|x|TensorTypeBase,0,a b|T,{l2}:{dt},{shape2}\tV", "ctx", {"group": (gi, "dupname")}))
    # the exhaustive re-binding and named-group families (conflicts of every kind, reported through every error path) under every
    # assignment of libraries to their arrays
    for c in gen_ctx.rebinding_contexts() + gen_ctx.group_contexts():
        k = sum(1 for p in c.params for s in p.slots if s.value[0] == "T")
        gi += 1
        for libs in itertools.product([0, 1, 2], repeat=k):
            c2 = relib(c, libs)
            out.append(Case(c2.ctx_line(), "ctx", {"group": (gi, "ctx"), "ctx": c2}))
    return out


def judge(case, impl_out, spec):
    return None


def second_pass(run, cases_, impl_out):
    groups: dict = {}
    for c, io in zip(cases_, impl_out):
        groups.setdefault(c.meta["group"], []).append((c, io))
    for g, items in groups.items():
        outs = {io for _, io in items}
        if len(outs) > 1:
            a = items[0]
            b = next(x for x in items if x[1] != a[1])
            run.findings.append(Finding("failing-input", f"the verdict depends on the library of the arrays: {a[1]!r} vs {b[1]!r} for {b[0].line!r}", a[0], a[1], "", ""))
    # the REPORT too: the full text of every rejection that names no dtype (rank, axis size, unbound name, duplicate) is the same under
    # every assignment of libraries (sizes are printed as plain integers, not as a library's own rendering of a shape)
    import impl

    rejected = [g for g, items in groups.items() if len({io for _, io in items}) == 1 and any(k in items[0][1] for k in ("reject ndims", "reject shape", "reject invalidref", "reject duplicate"))]
    step = max(1, len(rejected) // (300 if run.tier == "quick" else 3000))
    n = 0
    impl.REPORT_TEXT[0] = True
    try:
        for g in rejected[::step]:
            texts = {}
            for c, _ in groups[g]:
                texts.setdefault(impl.handle(c.line), c)
                n += 1
            if len(texts) > 1:
                (ta, ca), (tb, cb) = list(texts.items())[:2]
                run.findings.append(Finding("failing-input", f"the report depends on the library of the arrays: {ta[-160:]!r} for {ca.line!r} vs {tb[-160:]!r} for {cb.line!r}", cb, tb, "", ta))
    finally:
        impl.REPORT_TEXT[0] = False
    run.n_cases += n
    run.coverage["report_texts_compared"] = n
    return []


def nontrivial(case, impl_out):
    return case.line.count("T,") >= 2


FIRST_CONTACT = r'''
import sys, json, warnings; warnings.simplefilter("ignore")
sys.path.insert(0, sys.argv[1])
order = [int(c) for c in sys.argv[2]]
import numpy as np, torch, jax, dltype
jax.config.update("jax_enable_x64", True)
SHARED = ["bool", "int8", "int16", "int32", "int64", "uint8", "float16", "float32", "float64"]
NP_ONLY = ["uint16", "uint32", "uint64"]
def mk(lib, dt, shape):
    if lib == 0: return np.zeros(shape, dtype=dt)
    if lib == 1: return torch.zeros(shape, dtype=getattr(torch, dt))
    return jax.device_put(np.zeros(shape, dtype=dt))
names = [n for n in dltype.__all__ if n.endswith("Tensor") and getattr(dltype, n, None) is not None] if hasattr(dltype, "__all__") else []
names = names or [n for n in dir(dltype) if n.endswith("Tensor") and isinstance(getattr(dltype, n), type)]
if order == [1, 2, 0]:
    # the single-library classes of the same names (what dltype exports when only one library is installed) see arrays of every
    # library FIRST: what they remember must not colour the verdict of the universal classes
    from dltype._lib import _numpy_tensors, _torch_tensors
    for n in sorted(names):
        for mod in (_torch_tensors, _numpy_tensors):
            c = getattr(mod, n, None)
            if c is None:
                continue
            for dt in SHARED:
                for lib in order:
                    try:
                        c["a b"].check(mk(lib, dt, (2, 3)))
                    except Exception:
                        pass
out = {}
for n in sorted(names):
    cls = getattr(dltype, n)
    ann = cls["a b"]
    rows = {}
    for dt in SHARED:          # every class meets every shared dtype; nothing has been accepted by this class before its first row
        v = []
        for lib in order:
            for shape in ((2, 3), (0, 3), (2,)):
                arrays = [mk(lib, dt, shape)]
                if lib == 0:
                    # the same numpy dtype reached through its other spellings (C type codes such as 'q' = long long): equal dtype,
                    # possibly another scalar class
                    arrays += [np.zeros(shape, dtype=code) for code in "?bBhHiIlLqQpPefd" if np.dtype(code) == np.dtype(dt)]
                for arr in arrays:
                    try:
                        ann.check(arr); r = "ok"
                    except dltype.DLTypeError as e:
                        r = type(e).__name__
                    except Exception as e:
                        r = "EXC " + type(e).__name__
                    v.append((lib, shape, r))
        rows[dt] = v
    out[n] = rows
# the same arrays as they appear while jax traces a function (jit / make_jaxpr): still jax arrays of that shape and dtype
from typing import Annotated
@dltype.dltyped()
def fj(x: Annotated[jax.Array, dltype.FloatTensor["a b"]], y: Annotated[jax.Array, dltype.FloatTensor["b c"]]) -> Annotated[jax.Array, dltype.FloatTensor["a c"]]:
    return jax.numpy.zeros((x.shape[0], y.shape[1]), dtype=x.dtype)
@dltype.dltyped()
def fm(x: Annotated[np.ndarray, dltype.FloatTensor["a b"]], y: Annotated[jax.Array, dltype.IntTensor["b"]]) -> None:
    return None
def verdict(f, *a):
    try:
        f(*a); return "ok"
    except dltype.DLTypeError as e:
        return type(e).__name__
    except Exception as e:
        return "EXC " + type(e).__name__
traced = []
if order == [0, 1, 2]:
    for sx, sy, dt in (((2, 3), (3, 4), "float32"), ((2, 3), (4, 4), "float32"), ((0, 3), (3, 0), "float16"), ((2,), (3, 4), "float32"), ((2, 3), (3, 4), "int32")):
        x, y = mk(2, dt, sx), mk(2, dt, sy)
        traced.append([f"fj {dt} {sx} {sy}", verdict(fj, x, y), verdict(jax.jit(fj), x, y), verdict(jax.make_jaxpr(fj), x, y)])
    for sy, dt in (((3,), "int32"), ((4,), "int32"), ((3,), "float32")):
        xn, y = mk(0, "float32", (2, 3)), mk(2, dt, sy)
        traced.append([f"fm numpy+traced {dt} {sy}", verdict(fm, xn, y), verdict(jax.jit(lambda yy: fm(xn, yy)), y), verdict(jax.make_jaxpr(lambda yy: fm(xn, yy)), y)])
out["__traced__"] = traced
print(json.dumps(out))
'''


def custom(run, tier):
    """First contact: in a FRESH interpreter every exported class meets every shared dtype of every library, in three library orders
    (what a class did with earlier arrays must not matter, and the first array of a process is judged like any other)."""
    import json
    import os
    import subprocess
    import sys

    import common
    from checks import c03

    c03.inplace_recheck(run)   # an array changed in place between two checks is judged like a fresh array of its new shape / dtype, in numpy and in torch alike
    n = 0
    for order in ("012", "120", "201"):
        env = dict(os.environ, JAX_PLATFORMS="cpu")
        r = subprocess.run([sys.executable, "-c", FIRST_CONTACT, common.REPO, order], capture_output=True, text=True, timeout=600, env=env)
        try:
            res = json.loads(r.stdout.strip().splitlines()[-1])
        except Exception:  # noqa: BLE001
            run.findings.append(Finding("failing-input", "first-contact interpreter failed: " + (r.stderr.strip().splitlines()[-1][:200] if r.stderr.strip() else f"rc={r.returncode}"),
                                        Case(f"FIRSTCONTACT\torder={order}", "first")))
            continue
        for desc, eager, jit, jaxpr in res.pop("__traced__", []):
            n += 3
            if not (eager == jit == jaxpr):
                run.findings.append(Finding("failing-input", f"the verdict for jax arrays depends on whether jax is tracing the function: eager={eager}, under jit={jit}, under make_jaxpr={jaxpr} ({desc})",
                                            Case(f"TRACED\t{desc}", "traced"), f"{eager}/{jit}/{jaxpr}"))
        for cls, rows in res.items():
            for dt, v in rows.items():
                by_shape = {}
                for lib, shape, verdict in v:
                    by_shape.setdefault(tuple(shape), []).append((lib, verdict))
                    n += 1
                for shape, lv in by_shape.items():
                    if len({x for _, x in lv}) > 1:
                        run.findings.append(Finding("failing-input", f"in a fresh interpreter (library order {order}) {cls}['a b'].check of a {dt} array of shape {shape} depends on the library: "
                                                    + ", ".join(f"{['numpy', 'torch', 'jax'][l]}={x}" for l, x in lv),
                                                    Case(f"FIRSTCONTACT\torder={order}\t{cls}\t{dt}\t{'.'.join(map(str, shape))}", "first"), str(lv)))
    run.n_cases += n
    run.dist["first-contact"] += n
    run.coverage["first_contact_checks"] = n
