"""C04 — each tensor class accepts exactly its documented dtypes, on every backend."""
from __future__ import annotations

import json
import os

import gen_ctx
import oracle
from common import LEAN_DIR
from framework import Case, Finding

PROP = "C04"
GENERATED = ['DtypeTables', 'Core', 'SrcShape', 'ShapeLoop']  # generated files this check's tie depends on
LEAN_MODULES = ["Properties.C04", "Properties.Core", "Properties.Prov.Shape", "Properties.CoreShape"]
RULE = (
    "complete observation of a finite function: every exported class x every dtype object that numpy (+ml_dtypes), torch and jax can put on "
    "an array (enumerated from the libraries' own dtype registries: sctypeDict, every torch.dtype attribute, every jnp scalar type, plus "
    "non-native byte orders); each cell = Class[...].check(zero-size array) and `dtype in Class.DTYPES`. The table is written to "
    "Generated/DtypeTables.lean and compared with the documented table by `decide +kernel` (Lean) and, cell by cell, by the Python oracle "
    "to name a failing cell. exhaustive over the enumerated dtypes. non-trivial = cell whose dtype category is not 'other'"
)
RULE += " Also: a refusal that is not the dtype error is recorded by the table observation and reported."


def use_sites(run, dts, acc_rows, classes) -> int:
    """The table is a property of the CLASS: every way of writing an annotation of that class and every place where
    it is used must give the cell's verdict.  Spellings: `Cls["n"]`, `Cls("n")`, `Cls[None]` (rank 0), `Cls[Shape[VariableAxis("n")]]`
    (symbolic shape).  Use sites: the standalone `check`, a dltyped function (argument and return position), and one
    array OBJECT passed for two parameters of different classes (the second position must still be judged by its own
    class).  Reported as failing cells."""
    import typing
    import warnings

    from common import import_repo

    dltype = import_repo()
    import jax
    import numpy as np
    import torch

    base = {0: np.ndarray, 1: torch.Tensor, 2: jax.Array}
    n = 0

    def verdict(fn) -> str:
        try:
            fn()
            return "accept"
        except dltype.DLTypeDtypeError:
            return "reject"
        except Exception as e:  # noqa: BLE001
            return "other " + type(e).__name__

    with warnings.catch_warnings():
        warnings.simplefilter("ignore")
        for ci, c in enumerate(classes):
            cls = getattr(dltype, c)
            scalar = cls[None]
            spell = {
                'Cls["n"]': cls["n"],
                'Cls("n")': cls("n"),
                'Cls[Shape[VariableAxis("n")]]': cls[dltype.Shape[dltype.VariableAxis("n")]],
            }
            fns = {}
            for lib, b in base.items():
                T = typing.Annotated[b, cls["n"]]
                A = typing.Annotated[b, dltype.TensorTypeBase["n"]]

                def mk():
                    # (annotations are attached as objects: this module postpones the evaluation of annotations)
                    def arg(x):
                        return None

                    def ret(x):
                        return x

                    def twice(x, y):
                        return None

                    arg.__annotations__ = {"x": T, "return": type(None)}
                    ret.__annotations__ = {"x": A, "return": T}
                    twice.__annotations__ = {"x": A, "y": T, "return": type(None)}
                    return tuple(dltype.dltyped()(f) for f in (arg, ret, twice))

                fns[lib] = mk()
            for j, (lib, nm, arr, cat) in enumerate(dts):
                want = "accept" if acc_rows[ci][j] else "reject"
                arg, ret, twice = fns[lib]
                sites = {k: verdict(lambda a=a: a.check(arr)) for k, a in spell.items()}
                # the scalar annotation `Cls[None]` on a rank-0 array of the same dtype
                try:
                    if lib == 0:
                        arr0 = np.zeros((), dtype=arr.dtype)
                    elif lib == 1:
                        arr0 = torch.zeros((), dtype=arr.dtype)
                    else:
                        arr0 = jax.device_put(np.zeros((), dtype=arr.dtype))
                    if arr0.dtype == arr.dtype:
                        sites["Cls[None] on a rank-0 array"] = verdict(lambda: scalar.check(arr0))
                except Exception:  # noqa: BLE001  (a dtype of which no rank-0 array can be made this way)
                    pass
                sites["dltyped argument"] = verdict(lambda: arg(arr))
                sites["dltyped return"] = verdict(lambda: ret(arr))
                sites["same array object passed for a TensorTypeBase parameter and for this class"] = verdict(lambda: twice(arr, arr))
                n += len(sites)
                for k, got in sites.items():
                    if got != want:
                        line = f"SITE\t{c}\t{lib}:{nm}\t{k}"
                        run.findings.append(Finding("failing-input", f"{c} / {['numpy', 'torch', 'jax'][lib]} dtype {nm}: the table cell (Cls[\"...\"].check) says {want}, but through `{k}` the verdict is {got}",
                                                    Case(line, "site"), got, "", want))
    run.n_cases += n
    run.dist["use-sites"] += n
    import translate

    for c, dtn, exc in translate.DTYPE_ANOMALIES[:40]:
        run.findings.append(Finding("failing-input", f"{c} refuses {['numpy', 'torch', 'jax'][int(dtn.split(':')[0])]} dtype {dtn.split(':')[1]} with {exc}, not with the dtype error",
                                    Case(f"CELL\t{c}\t{dtn}\terror-class", "cell-error"), exc, "", "DLTypeDtypeError"))
    return n


def custom(run, tier):
    import translate

    dts, acc_rows, mem_rows = translate.observe_dtype_table()
    n = 0
    for ci, c in enumerate(translate.CLASSES):
        for j, (lib, nm, _arr, cat) in enumerate(dts):
            run.n_cases += 1
            if cat != "other":
                run.n_distinct_nontrivial += 1
            exp = oracle.documented(c, cat, lib)
            got = acc_rows[ci][j]
            line = f"CELL\t{c}\t{lib}:{nm}\tcategory={cat}"
            if exp is not None and got != exp:
                run.findings.append(Finding("failing-input", f"{c} {'accepts' if got else 'rejects'} {['numpy', 'torch', 'jax'][lib]} dtype {nm} (category {cat}); documented: {'accept' if exp else 'reject'}",
                                            Case(line, "cell"), "accept" if got else "reject", "", "accept" if exp else "reject"))
            if mem_rows[ci][j] != got:
                run.findings.append(Finding("failing-input", f"{c}: `dtype in DTYPES` ({mem_rows[ci][j]}) and check() ({got}) disagree for {nm}", Case(line, "cell"), str(got), "", ""))
            if n % 331 == 0 and len(run.samples) < 10:
                run.samples.append({"cell": line, "accepted": got, "documented": exp})
            n += 1
    n_sites = use_sites(run, dts, acc_rows, translate.CLASSES)
    run.coverage["use_site_cells"] = n_sites
    run.coverage["exhaustive"] = True
    run.coverage["classes"] = len(translate.CLASSES)
    run.coverage["dtypes_by_library"] = {k: sum(1 for d in dts if d[0] == i) for i, k in enumerate(["numpy", "torch", "jax"])}
    run.coverage["excluded_from_claim"] = sorted({f"{['numpy','torch','jax'][l]}:{nm}" for l, nm, _a, cat in dts if cat == "bfloat16" and l != 1})
    run.dist["cells"] += n
