"""C04 — each tensor class accepts exactly its documented dtypes, on every backend."""
from __future__ import annotations

import json
import os

import gen_ctx
import oracle
from common import LEAN_DIR
from framework import Case, Finding

PROP = "C04"
GENERATED = ['DtypeTables']  # generated files this check's tie depends on
LEAN_MODULES = ["Properties.C04"]
RULE = (
    "complete observation of a finite function: every exported class x every dtype object that numpy (+ml_dtypes), torch and jax can put on "
    "an array (enumerated from the libraries' own dtype registries: sctypeDict, every torch.dtype attribute, every jnp scalar type, plus "
    "non-native byte orders); each cell = Class[...].check(zero-size array) and `dtype in Class.DTYPES`. The table is written to "
    "Generated/DtypeTables.lean and compared with the documented table by `decide +kernel` (Lean) and, cell by cell, by the Python oracle "
    "to name a failing cell. exhaustive over the enumerated dtypes. non-trivial = cell whose dtype category is not 'other'"
)


def custom(run, tier):
    import translate

    dts, acc_rows, mem_rows = translate.observe_dtype_table()
    n = 0
    for ci, c in enumerate(translate.CLASSES):
        for j, (lib, nm, _arr, cat) in enumerate(dts):
            run.n_cases += 1
            if cat != "other":
                run.n_distinct_nontrivial += 1
            exp = oracle.documented(c, cat, lib)
            got = acc_rows[ci][j]
            line = f"CELL\t{c}\t{lib}:{nm}\tcategory={cat}"
            if exp is not None and got != exp:
                run.findings.append(Finding("failing-input", f"{c} {'accepts' if got else 'rejects'} {['numpy', 'torch', 'jax'][lib]} dtype {nm} (category {cat}); documented: {'accept' if exp else 'reject'}",
                                            Case(line, "cell"), "accept" if got else "reject", "", "accept" if exp else "reject"))
            if mem_rows[ci][j] != got:
                run.findings.append(Finding("failing-input", f"{c}: `dtype in DTYPES` ({mem_rows[ci][j]}) and check() ({got}) disagree for {nm}", Case(line, "cell"), str(got), "", ""))
            if n % 331 == 0 and len(run.samples) < 10:
                run.samples.append({"cell": line, "accepted": got, "documented": exp})
            n += 1
    run.coverage["exhaustive"] = True
    run.coverage["classes"] = len(translate.CLASSES)
    run.coverage["dtypes_by_library"] = {k: sum(1 for d in dts if d[0] == i) for i, k in enumerate(["numpy", "torch", "jax"])}
    run.coverage["excluded_from_claim"] = sorted({f"{['numpy','torch','jax'][l]}:{nm}" for l, nm, _a, cat in dts if cat == "bfloat16" and l != 1})
    run.dist["cells"] += n
