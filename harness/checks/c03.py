"""C03 — standalone check: rank, dtype, literal axes and multi-axis alignment."""
from __future__ import annotations

import itertools

import gen_ctx
import oracle
from checks import ctxcommon
from framework import Case

PROP = "C03"
GENERATED = ['DtypeTables', 'Core', 'SrcShape', 'ShapeLoop']  # generated files this check's tie depends on
LEAN_MODULES = ["Properties.C03", "Properties.C03p", "Properties.Core", "Properties.Prov.Shape", "Properties.CoreShape"]
RULE = (
    "exhaustive: every shape string of <=4 dimensions over {0,2,3,a,c=2} with the marker (none / ... / *g) in every position x every array "
    "shape of rank 0..5 (quick) / 0..6 (thorough) over sizes {0,2,3} (sampled where the product is large) x accepted / rejected dtype (every (shape string, rank) pair meets both, in each library, rank 0 included); plus the "
    "class x dtype matrix (every exported class x every dtype numpy / torch / jax can put on an array) on three fixed shapes (`a b`, `...` and the scalar annotation `[None]`); literal axes of 256 … 65536. The verdict and the report (kind, axis index in the actual tensor, expected, actual) are judged "
    "by an independent oracle (oracle.spec_check). non-trivial = distinct (shape string, array shape) pair with at least one literal or marker"
)
DIMS = ["0", "2", "3", "a", "c=2"]


def shape_strings():
    out = [None]
    for n in range(0, 5):
        for combo in itertools.product(DIMS, repeat=n):
            out.append(list(combo))
            for m in ("...", "*g"):
                for pos in range(n + 1):
                    if n + 1 <= 4:
                        out.append(list(combo[:pos]) + [m] + list(combo[pos:]))
    return out


def cases(tier, rng, run):
    out = [Case(l, "corpus") for l in run.corpus_lines()]
    maxrank = 5 if tier == "quick" else 6
    shapes = shape_strings()
    per = 6 if tier == "quick" else 40
    for dims in shapes:
        s = "<None>" if dims is None else " ".join(dims)
        if dims is not None and not dims:
            continue
        n = 0 if dims is None else len(dims)
        ranks = [r for r in range(0, maxrank + 1) if abs(r - n) <= 2]
        for r in ranks:
            allshapes = list(itertools.product([0, 2, 3], repeat=r))
            pick = allshapes if len(allshapes) <= per else rng.sample(allshapes, per)
            for k, sh in enumerate(pick):
                cls, dtn = ("FloatTensor", "float32") if rng.random() < 0.85 else ("FloatTensor", "int32")
                lib = rng.choice([0, 1, 2])
                out.append(Case(f"CHECK\t{cls},0,{s}\t{lib}:{dtn}\t{'.'.join(map(str, sh))}", "exh", {"dims": dims, "cls": cls, "dt": f"{lib}:{dtn}", "shape": sh}))
                if k == 0:
                    # every (shape string, rank) pair meets both an accepted and a refused dtype, in every library (rank 0 included)
                    for lib2 in (0, 1, 2):
                        for dt2 in ("float32", "int32"):
                            if (lib2, dt2) != (lib, dtn):
                                out.append(Case(f"CHECK\t{cls},0,{s}\t{lib2}:{dt2}\t{'.'.join(map(str, sh))}", "exh", {"dims": dims, "cls": cls, "dt": f"{lib2}:{dt2}", "shape": sh}))
    # the class x dtype matrix on one fixed shape: "its dtype belongs to the annotation class" for every exported class and every
    # dtype the three libraries can put on an array (judged by the documented table, not by the observed one)
    meta = gen_ctx.meta()
    for cls in meta["classes"]:
        for lib, nm, cat in meta["dtypes"]:
            if cat == "bfloat16" and lib != 1:
                continue   # (the documentation makes no claim)
            for s, sh in (("a b", (2, 3)), ("...", ()), ("<None>", ())):
                out.append(Case(f"CHECK\t{cls},0,{s}\t{lib}:{nm}\t{'.'.join(map(str, sh))}", "matrix", {"dims": None if s == "<None>" else s.split(), "cls": cls, "dt": f"{lib}:{nm}", "shape": sh}))
    # literal axes beyond the small integers CPython keeps as singletons (equality, not identity, is what counts), aligned from
    # the front and from the back; the other axes have size 0 so that nothing large is allocated
    for lit in (256, 257, 512, 1024, 65536):
        for s, good in ((f"b {lit}", (0, lit)), (f"... {lit}", (0, 0, lit)), (f"{lit} *g b", (lit, 0, 0)), (f"*g dim={lit}", (0, lit)), (f"{lit}", (lit,))):
            for delta in (0, 1, -1):
                sh = tuple(x + delta if x == lit else x for x in good)
                for lib in (0, 1, 2):
                    if lib != 0 and max(sh) > 2048 and 0 not in sh:
                        continue
                    out.append(Case(f"CHECK\tFloatTensor,0,{s}\t{lib}:float32\t{'.'.join(map(str, sh))}", "biglit", {"dims": s.split(), "cls": "FloatTensor", "dt": f"{lib}:float32", "shape": sh}))
    return out


def judge(case, impl_out, spec):
    m = case.meta
    if "dims" not in m:
        f = case.line.split("\t")
        cls, _opt, s = f[1].split(",", 2)
        m = {"dims": None if s == "<None>" else s.split(), "cls": cls, "dt": f[2], "shape": tuple(int(x) for x in f[3].split(".")) if f[3] else ()}
    ds = oracle.classify_shape(None if m["dims"] is None else " ".join(m["dims"]))
    if ds is None:
        return None
    exp = oracle.spec_check(ds, m["cls"], m["dt"], tuple(m["shape"]), ctxcommon.accepts())
    if exp[0] == "ok":
        want = "ok"
    elif exp[0] == "ndims":
        want = f"reject ndims tensor=anonymous expected={exp[1]} actual={exp[2]}"
    elif exp[0] == "dtype":
        want = "reject dtype tensor=anonymous"
    else:
        want = f"reject shape tensor=anonymous dim={exp[1]} expected={exp[2]} actual={exp[3]}"
    if impl_out != want:
        return f"check() gives {impl_out!r}, the documented rule gives {want!r}"
    return None


def nontrivial(case, impl_out):
    return any(c in case.line.split("\t")[1] for c in "023.*")
