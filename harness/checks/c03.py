"""C03 — standalone check: rank, dtype, literal axes and multi-axis alignment."""
from __future__ import annotations

import itertools

import gen_ctx
import oracle
from checks import ctxcommon
from framework import Case

PROP = "C03"
GENERATED = ['DtypeTables', 'Core', 'SrcShape', 'ShapeLoop']  # generated files this check's tie depends on
LEAN_MODULES = ["Properties.C03", "Properties.C03p", "Properties.Core", "Properties.Prov.Shape", "Properties.CoreShape"]
RULE = (
    "exhaustive: every shape string of <=4 dimensions over {0,2,3,a,c=2} with the marker (none / ... / *g) in every position x every array "
    "shape of rank 0..5 (quick) / 0..6 (thorough) over sizes {0,2,3} (sampled where the product is large) x accepted / rejected dtype (every (shape string, rank) pair meets both, in each library, rank 0 included); plus the "
    "class x dtype matrix (every exported class x every dtype numpy / torch / jax can put on an array) on three fixed shapes (`a b`, `...` and the scalar annotation `[None]`); literal axes of 256 … 65536. The verdict and the report (kind, axis index in the actual tensor, expected, actual) are judged "
    "by an independent oracle (oracle.spec_check). non-trivial = distinct (shape string, array shape) pair with at least one literal or marker"
)
RULE += " Also: one annotation object and one array object changed in place between two checks (numpy shape / dtype / resize, torch unsqueeze_ / t_ / resize_) judged like a fresh array."
DIMS = ["0", "2", "3", "a", "c=2"]


def shape_strings():
    out = [None]
    for n in range(0, 5):
        for combo in itertools.product(DIMS, repeat=n):
            out.append(list(combo))
            for m in ("...", "*g"):
                for pos in range(n + 1):
                    if n + 1 <= 4:
                        out.append(list(combo[:pos]) + [m] + list(combo[pos:]))
    return out


def cases(tier, rng, run):
    out = [Case(l, "corpus") for l in run.corpus_lines()]
    maxrank = 5 if tier == "quick" else 6
    shapes = shape_strings()
    per = 6 if tier == "quick" else 40
    for dims in shapes:
        s = "<None>" if dims is None else " ".join(dims)
        if dims is not None and not dims:
            continue
        n = 0 if dims is None else len(dims)
        ranks = [r for r in range(0, maxrank + 1) if abs(r - n) <= 2]
        for r in ranks:
            allshapes = list(itertools.product([0, 2, 3], repeat=r))
            pick = allshapes if len(allshapes) <= per else rng.sample(allshapes, per)
            for k, sh in enumerate(pick):
                cls, dtn = ("FloatTensor", "float32") if rng.random() < 0.85 else ("FloatTensor", "int32")
                lib = rng.choice([0, 1, 2])
                out.append(Case(f"CHECK\t{cls},0,{s}\t{lib}:{dtn}\t{'.'.join(map(str, sh))}", "exh", {"dims": dims, "cls": cls, "dt": f"{lib}:{dtn}", "shape": sh}))
                if k == 0:
                    # every (shape string, rank) pair meets both an accepted and a refused dtype, in every library (rank 0 included)
                    for lib2 in (0, 1, 2):
                        for dt2 in ("float32", "int32"):
                            if (lib2, dt2) != (lib, dtn):
                                out.append(Case(f"CHECK\t{cls},0,{s}\t{lib2}:{dt2}\t{'.'.join(map(str, sh))}", "exh", {"dims": dims, "cls": cls, "dt": f"{lib2}:{dt2}", "shape": sh}))
    # the class x dtype matrix on one fixed shape: "its dtype belongs to the annotation class" for every exported class and every
    # dtype the three libraries can put on an array (judged by the documented table, not by the observed one)
    meta = gen_ctx.meta()
    for cls in meta["classes"]:
        for lib, nm, cat in meta["dtypes"]:
            if cat == "bfloat16" and lib != 1:
                continue   # (the documentation makes no claim)
            for s, sh in (("a b", (2, 3)), ("...", ()), ("<None>", ())):
                out.append(Case(f"CHECK\t{cls},0,{s}\t{lib}:{nm}\t{'.'.join(map(str, sh))}", "matrix", {"dims": None if s == "<None>" else s.split(), "cls": cls, "dt": f"{lib}:{nm}", "shape": sh}))
    # literal axes beyond the small integers CPython keeps as singletons (equality, not identity, is what counts), aligned from
    # the front and from the back; the other axes have size 0 so that nothing large is allocated
    for lit in (256, 257, 512, 1024, 65536):
        for s, good in ((f"b {lit}", (0, lit)), (f"... {lit}", (0, 0, lit)), (f"{lit} *g b", (lit, 0, 0)), (f"*g dim={lit}", (0, lit)), (f"{lit}", (lit,))):
            for delta in (0, 1, -1):
                sh = tuple(x + delta if x == lit else x for x in good)
                for lib in (0, 1, 2):
                    if lib != 0 and max(sh) > 2048 and 0 not in sh:
                        continue
                    out.append(Case(f"CHECK\tFloatTensor,0,{s}\t{lib}:float32\t{'.'.join(map(str, sh))}", "biglit", {"dims": s.split(), "cls": "FloatTensor", "dt": f"{lib}:float32", "shape": sh}))
    return out


def judge(case, impl_out, spec):
    m = case.meta
    if "dims" not in m:
        f = case.line.split("\t")
        cls, _opt, s = f[1].split(",", 2)
        m = {"dims": None if s == "<None>" else s.split(), "cls": cls, "dt": f[2], "shape": tuple(int(x) for x in f[3].split(".")) if f[3] else ()}
    ds = oracle.classify_shape(None if m["dims"] is None else " ".join(m["dims"]))
    if ds is None:
        return None
    exp = oracle.spec_check(ds, m["cls"], m["dt"], tuple(m["shape"]), ctxcommon.accepts())
    if exp[0] == "ok":
        want = "ok"
    elif exp[0] == "ndims":
        want = f"reject ndims tensor=anonymous expected={exp[1]} actual={exp[2]}"
    elif exp[0] == "dtype":
        want = "reject dtype tensor=anonymous"
    else:
        want = f"reject shape tensor=anonymous dim={exp[1]} expected={exp[2]} actual={exp[3]}"
    if impl_out != want:
        return f"check() gives {impl_out!r}, the documented rule gives {want!r}"
    return None


def nontrivial(case, impl_out):
    return any(c in case.line.split("\t")[1] for c in "023.*")


def inplace_recheck(run):
    """One annotation OBJECT and one array OBJECT, checked, changed IN PLACE (rank, an axis, the dtype), checked again with nothing else
    in between: the second verdict is the verdict of a fresh array of the new shape / dtype.  numpy (`a.shape = …`, `a.dtype = …`,
    `ndarray.resize`) and torch (`unsqueeze_`, `t_`, `resize_`); jax arrays cannot change."""
    import numpy as np
    import torch

    import impl
    from framework import Case, Finding

    dltype = impl.dltype

    def verdict(ann, t):
        try:
            ann.check(t)
            return "ok"
        except dltype.DLTypeError as e:
            return type(e).__name__
        except Exception as e:  # noqa: BLE001
            return "EXC " + type(e).__name__

    def np_shape(a, s):
        a.shape = s

    def np_dtype(a, d):
        a.dtype = d

    changes = [
        ("numpy", lambda: np.zeros((2, 3), np.float32), [("a.shape = (3, 2)", lambda a: np_shape(a, (3, 2))), ("a.shape = (6,)", lambda a: np_shape(a, (6,))), ("a.shape = (1, 2, 3)", lambda a: np_shape(a, (1, 2, 3))),
                                                         ("a.dtype = int32", lambda a: np_dtype(a, np.int32)), ("a.resize((2, 4))", lambda a: a.resize((2, 4), refcheck=False)), ("nothing", lambda a: None)]),
        ("torch", lambda: torch.zeros(2, 3), [("x.unsqueeze_(0)", lambda x: x.unsqueeze_(0)), ("x.t_()", lambda x: x.t_()), ("x.resize_(2, 4)", lambda x: x.resize_(2, 4)), ("x.resize_(6)", lambda x: x.resize_(6)),
                                               ("x.squeeze_() after unsqueeze_(2)", lambda x: x.unsqueeze_(2)), ("nothing", lambda x: None)]),
    ]
    n = 0
    for lib, mk, chs in changes:
        for spec in ("a b", "2 3", "2 b", "*g 3", "... 3", "a=2 b=3", "n m=3"):
            for cname in ("FloatTensor", "Float32Tensor", "TensorTypeBase"):
                for what, ch in chs:
                    ann = getattr(dltype, cname)[spec]
                    t = mk()
                    first = verdict(ann, t)
                    try:
                        ch(t)
                    except Exception:  # noqa: BLE001  (the library refuses this change of this array: nothing to re-check)
                        continue
                    again = verdict(ann, t)
                    fresh_ann = getattr(dltype, cname)[spec]
                    fresh_t = (np.zeros(t.shape, t.dtype) if lib == "numpy" else torch.zeros(tuple(t.shape), dtype=t.dtype))
                    want = verdict(fresh_ann, fresh_t)
                    n += 1
                    if again != want:
                        run.findings.append(Finding("failing-input", f"{cname}[{spec!r}] checked a {lib} array of shape (2, 3) ({first}), the array was changed in place ({what}: now {tuple(t.shape)} {t.dtype}) and "
                                                    f"checked again by the same annotation object: {again}; a fresh array of that shape and dtype gives {want}",
                                                    Case(f"INPLACE\t{cname}\t{spec}\t{lib}\t{what}", "inplace"), again, "", want))
    run.n_cases += n
    run.n_distinct_nontrivial += n
    run.dist["in-place change between two checks"] += n


def custom(run, tier):
    inplace_recheck(run)
