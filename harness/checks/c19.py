"""C19 — decorated torch modules trace, script and compile to the same results.

What Lean carries: the verdict every mode must reproduce is the model's verdict (C01/C02), eager
transparency is the trace theorem C02b, and "decoration is skipped while scripting" is the generated
guard of Properties/C13.lean.  TorchScript, the tracer and dynamo are NOT modelled: this check runs a
generated family of modules and their undecorated twins under each capture mode.
"""
from __future__ import annotations

import warnings

import impl
from framework import Case, Finding

PROP = "C19"
GENERATED = ['Guards', 'SrcDecorate', 'EvalLoop', 'OpSemantics', 'Core', 'SrcDeps', 'Wrapper', 'Decorate', 'HintLoop', 'Resolve', 'SrcSurface']  # generated files this check's tie depends on
LEAN_MODULES = ["Properties.C19", "Properties.Prov.Decorate", "Properties.CoreEval", "Properties.Tables", "Properties.Core", "Properties.Prov.Deps", "Properties.CoreWrap", "Properties.CoreDecorate", "Properties.CoreHints", "Properties.CoreResolve", "Properties.Prov.Surface"]
NEEDS_DTYPES = False
LEVEL = "proof"
RULE = (
    "a generated family of 21 torch modules (1-3 tensor parameters, optional parameter, tuple return, multi-axis, literal-axis (left and right of the marker, named) and expression annotations using every operator and function of the grammar, named expressions, "
    "free scope provider (also one whose mapping changes after the first call), a named group covering no axis) x {eager, torch.jit.trace with positional and with keyword example inputs, torch.jit.script, torch.compile(backend='eager')} (thorough adds aot_eager) x "
    "{conforming input: outputs torch.equal to the undecorated twin's; non-conforming input: the dltype error class under eager, script "
    "and compile}. non-trivial = every (module, mode, input kind) triple"
)
RULE += " Also: a module whose hints are forward references to aliases defined below the class; a module with a tensor-valued default."
TRUSTED_EXTRA = ["TorchScript, the tracer and dynamo are not modelled: capture modes are observed against an undecorated twin, not proved"]

SRC = r'''
import torch, dltype
from typing import Annotated, Optional

class Prov:
    def get_dltype_scope(self):
        return {"k": 3}
PROV = Prov()

class M1(torch.nn.Module):
    DEC
    def forward(self, x: Annotated[torch.Tensor, dltype.FloatTensor["b c"]]) -> Annotated[torch.Tensor, dltype.FloatTensor["b c"]]:
        return torch.multiply(x, 2)

class M2(torch.nn.Module):
    DEC
    def forward(self, x: Annotated[torch.Tensor, dltype.FloatTensor["b c"]], y: Annotated[torch.Tensor, dltype.FloatTensor["c d"]]) -> Annotated[torch.Tensor, dltype.FloatTensor["b d"]]:
        return x @ y

class M3(torch.nn.Module):
    DEC
    def forward(self, x: Annotated[torch.Tensor, dltype.FloatTensor["*batch c"]]) -> Annotated[torch.Tensor, dltype.FloatTensor["*batch"]]:
        return x.sum(-1)

class M4(torch.nn.Module):
    DEC
    def forward(self, x: Annotated[torch.Tensor, dltype.FloatTensor["b c"]]) -> tuple[Annotated[torch.Tensor, dltype.FloatTensor["b c"]], Annotated[torch.Tensor, dltype.FloatTensor["c b"]]]:
        return x + 1, x.t()

class M5(torch.nn.Module):
    DEC
    def forward(self, x: Annotated[torch.Tensor, dltype.FloatTensor["b c"]]) -> Annotated[torch.Tensor, dltype.FloatTensor["b c*2"]]:
        return torch.cat([x, x], dim=1)

class M6(torch.nn.Module):
    DECP
    def forward(self, x: Annotated[torch.Tensor, dltype.FloatTensor["b k"]]) -> Annotated[torch.Tensor, dltype.FloatTensor["b k"]]:
        return x * 3

class M7(torch.nn.Module):
    DEC
    def forward(self, x: Annotated[torch.Tensor, dltype.FloatTensor["b c"]], w: Annotated[torch.Tensor, dltype.FloatTensor["c"]], z: Annotated[torch.Tensor, dltype.IntTensor["b"]]) -> Annotated[torch.Tensor, dltype.FloatTensor["b"]]:
        return (x * w).sum(1) + z

class M9(torch.nn.Module):
    DEC
    def forward(self, x: Annotated[torch.Tensor, dltype.FloatTensor["b c"]], y: Annotated[torch.Tensor, dltype.FloatTensor["b c*2"]]) -> Annotated[torch.Tensor, dltype.FloatTensor["b c*3"]]:
        return torch.cat([x, y], dim=1)

class M10(torch.nn.Module):
    DEC
    def forward(self, x: Annotated[torch.Tensor, dltype.FloatTensor["*batch c"]], y: Annotated[torch.Tensor, dltype.FloatTensor["*batch c+1"]]) -> Annotated[torch.Tensor, dltype.FloatTensor["*batch c"]]:
        return x + y[..., :-1]

class M11(torch.nn.Module):
    DEC
    def forward(self, x: Annotated[torch.Tensor, dltype.FloatTensor["b n"]]) -> Annotated[torch.Tensor, dltype.FloatTensor["b isqrt(n)"]]:
        return x[:, :2]

class M12(torch.nn.Module):
    DEC
    def forward(self, x: Annotated[torch.Tensor, dltype.FloatTensor["b c"]], y: Annotated[torch.Tensor, dltype.FloatTensor["b min(b,c)"]]) -> Annotated[torch.Tensor, dltype.FloatTensor["b max(b,c)/2"]]:
        return x[:, :2] + y

class M13(torch.nn.Module):
    DEC
    def forward(self, x: Annotated[torch.Tensor, dltype.FloatTensor["b c"]]) -> Annotated[torch.Tensor, dltype.FloatTensor["b c^2-c"]]:
        return torch.cat([x, x], dim=1)

class M14(torch.nn.Module):
    DEC
    def forward(self, x: Annotated[torch.Tensor, dltype.FloatTensor["b c"]], y: Annotated[torch.Tensor, dltype.FloatTensor["b d=c+1"]]) -> Annotated[torch.Tensor, dltype.FloatTensor["b d"]]:
        return y * 2

class M15(torch.nn.Module):
    DEC
    def forward(self, x: Annotated[torch.Tensor, dltype.FloatTensor["b c 3"]]) -> Annotated[torch.Tensor, dltype.FloatTensor["b 3 c"]]:
        return x.transpose(1, 2)

class M16(torch.nn.Module):
    DEC
    def forward(self, x: Annotated[torch.Tensor, dltype.FloatTensor["*batch n 3"]], y: Annotated[torch.Tensor, dltype.FloatTensor["2 ... n"]]) -> Annotated[torch.Tensor, dltype.FloatTensor["*batch n=4"]]:
        return x.sum(-1) + y[0, 0]

class M17(torch.nn.Module):
    DEC
    def forward(self, x: Annotated[torch.Tensor, dltype.FloatTensor["rgb=3 h w"]]) -> Annotated[torch.Tensor, dltype.FloatTensor["1 rgb h*w"]]:
        return x.reshape(1, 3, -1)

class M18(torch.nn.Module):
    DEC
    def forward(self, x: Annotated[torch.Tensor, dltype.FloatTensor["*batch c"]], y: Annotated[torch.Tensor, dltype.FloatTensor["*batch c+1"]]) -> Annotated[torch.Tensor, dltype.FloatTensor["*batch c"]]:
        return x + y[..., :-1]

class Prov2:
    k = 3
    def get_dltype_scope(self):
        return {"k": self.k}
PROV2 = Prov2()

class M19(torch.nn.Module):
    DECQ
    def forward(self, x: Annotated[torch.Tensor, dltype.FloatTensor["b k"]]) -> Annotated[torch.Tensor, dltype.FloatTensor["b k"]]:
        return x * 3

class M20(torch.nn.Module):
    DEC
    def forward(self, x: Annotated[torch.Tensor, dltype.FloatTensor["b n"]]) -> Annotated[torch.Tensor, dltype.FloatTensor["b n/3 n-n/3*3"]]:
        return x[:, : x.shape[1] // 3].unsqueeze(-1)[:, :, :0]

class M21(torch.nn.Module):
    DEC
    def forward(module, x: Annotated[torch.Tensor, dltype.FloatTensor["b c"]]) -> Annotated[torch.Tensor, dltype.FloatTensor["b c"]]:
        return x + 1

class M22(torch.nn.Module):
    # hints that are forward references to aliases defined BELOW the class: unresolvable when the decorator runs, resolved at the first call
    DEC
    def forward(self, x: "Img22") -> "Out22":
        return x[:, :4]

Img22 = Annotated[torch.Tensor, dltype.FloatTensor["b c"]]
Out22 = Annotated[torch.Tensor, dltype.FloatTensor["b c"]]

GATE23 = torch.full((1, 4), 0.5)

class M23(torch.nn.Module):
    # a hinted parameter left at its (tensor) DEFAULT: the default is an argument like any other
    DEC
    def forward(self, x: Annotated[torch.Tensor, dltype.FloatTensor["b c"]], gate: Annotated[torch.Tensor, dltype.FloatTensor["b c"]] = GATE23) -> Annotated[torch.Tensor, dltype.FloatTensor["b c"]]:
        return x * gate

class M8(torch.nn.Module):
    DEC
    def forward(self, x: Annotated[torch.Tensor, dltype.FloatTensor["b c"]], m: Optional[Annotated[torch.Tensor, dltype.FloatTensor["b c"]]] = None) -> Annotated[torch.Tensor, dltype.FloatTensor["b c"]]:
        if m is None:
            return x
        return x * m
'''


def family():
    import torch

    dltype = impl.dltype
    # the two families are real modules on disk (TorchScript compiles from SOURCE: a twin without a source file could never be
    # scripted, and a failure of the decorated module to script could not be told from that)
    import importlib.util
    import os
    import sys

    import common

    d = common.workdir(PROP)

    def load(name, text):
        path = os.path.join(d, name + ".py")
        with open(path, "w") as fh:
            fh.write(text)
        spec = importlib.util.spec_from_file_location(name, path)
        mod = importlib.util.module_from_spec(spec)
        sys.modules[name] = mod
        spec.loader.exec_module(mod)
        return mod.__dict__

    dec_ns = load("verif_c19_decorated", SRC.replace("DECP", "@dltype.dltyped(PROV)").replace("DECQ", "@dltype.dltyped(PROV2)").replace("DEC", "@dltype.dltyped()"))
    und_ns = load("verif_c19_twin", SRC.replace("DECP", "").replace("DECQ", "").replace("DEC", ""))
    # TorchScript does not read `Annotated[...]` hints at all (that is why dltype hides its wrapper from it): the twin that scripting
    # is compared with carries the bare tensor types
    import re

    plain = re.sub(r"Annotated\[torch\.Tensor, dltype\.[A-Za-z0-9]+\[\"[^\"]*\"\]\]", "torch.Tensor", SRC.replace("DECP", "").replace("DECQ", "").replace("DEC", ""))
    und_ns["__plain__"] = load("verif_c19_plain_twin", plain)
    g = torch.Generator().manual_seed(0)
    r = lambda *s: torch.rand(*s, generator=g)  # noqa: E731
    # M19's provider changes what it returns after the decorated forward has run once: the value at call time counts
    try:
        dec_ns["M19"]()(r(2, 3))
    except Exception:  # noqa: BLE001  (reported through the family below if the decoration itself is broken)
        pass
    dec_ns["PROV2"].k = 5
    inputs = {
        "M1": ((r(2, 3),), (r(2, 3, 4),)),
        "M2": ((r(2, 3), r(3, 4)), (r(2, 3), r(4, 4))),
        "M3": ((r(2, 5, 3),), None),
        "M4": ((r(2, 3),), (r(3),)),
        "M5": ((r(2, 3),), (r(2, 3, 1),)),
        "M6": ((r(2, 3),), (r(2, 4),)),
        "M7": ((r(2, 3), r(3), torch.ones(2, dtype=torch.int32)), (r(2, 3), r(4), torch.ones(2, dtype=torch.int32))),
        "M8": ((r(2, 3),), (r(2, 3, 1),)),
        "M9": ((r(2, 3), r(2, 6)), (r(2, 3), r(2, 5))),
        "M10": ((r(2, 4, 3), r(2, 4, 4)), (r(2, 4, 3), r(2, 5, 4))),
        "M11": ((r(2, 4),), (r(2, 4, 1),)),
        "M12": ((r(2, 4), r(2, 2)), (r(2, 4), r(2, 3))),
        "M13": ((r(2, 3),), (r(2, 3, 1),)),
        "M14": ((r(2, 3), r(2, 4)), (r(2, 3), r(2, 5))),
        "M15": ((r(2, 4, 3),), (r(2, 4, 2),)),
        "M16": ((r(5, 2, 4, 3), r(2, 6, 4)), (r(5, 2, 4, 3), r(3, 6, 4))),
        "M17": ((r(3, 2, 5),), (r(4, 2, 5),)),
        "M18": ((r(3), r(4)), (r(3), r(2, 4))),          # the group covers no axis at all / covers none in x and one in y
        "M19": ((r(2, 5),), (r(2, 3),)),
        "M20": ((torch.zeros(0, 3 * (2**24 + 1)),), None),   # an axis longer than float32 counts exactly (no memory: the other axis is 0)
        "M21": ((r(2, 3),), (r(2, 3, 1),)),                  # the receiver is not called `self`
        "M23": ((r(1, 4),), (r(2, 4),)),                     # (x alone conforms either way: it is the default of `gate`, (1, 4), that disagrees on b)
        "M22": ((r(2, 3),), (r(2, 6),)),                     # (the bad input satisfies the parameter hint: only the RESULT violates — 4 of 6 channels kept)
    }
    return dec_ns, und_ns, inputs


def same(a, b) -> bool:
    import torch

    if isinstance(a, (tuple, list)):
        return isinstance(b, (tuple, list)) and len(a) == len(b) and all(same(x, y) for x, y in zip(a, b))
    return torch.equal(a, b)


def custom(run, tier):
    warnings.simplefilter("ignore")
    import torch

    dltype = impl.dltype
    dec_ns, und_ns, inputs = family()
    import inspect

    modes = ["eager", "trace", "trace-kwargs", "script", "compile-eager"] + (["compile-aot_eager"] if tier == "thorough" else [])
    for name, (good, bad) in inputs.items():
        D, U = dec_ns[name], und_ns[name]
        ref = U()(*good)
        pnames = list(inspect.signature(U.forward).parameters)[1:][: len(good)]   # (the receiver is the first parameter, whatever its name)
        for mode in modes:
            line = f"TORCH\t{name}\t{mode}"

            def make(cls):
                m = cls()
                if mode == "eager":
                    return m
                if mode == "trace":
                    return torch.jit.trace(m, good)
                if mode == "trace-kwargs":
                    # tracing with keyword example inputs matches them against forward's visible signature
                    return torch.jit.trace(m, example_kwarg_inputs=dict(zip(pnames, good)))
                if mode == "script":
                    return torch.jit.script(m)
                torch._dynamo.reset()
                return torch.compile(m, backend=mode.split("-", 1)[1])

            run.n_cases += 1
            run.n_distinct_nontrivial += 1
            try:
                md = make(D)
                out = md(**dict(zip(pnames, good))) if mode == "trace-kwargs" else md(*good)
                ok = same(out, ref)
                obs = "equal" if ok else "different-output"
            except Exception as e:  # noqa: BLE001
                obs = "capture-failed " + type(e).__name__ + ": " + str(e)[:160]
                md = None
            run.dist[f"{mode}:{obs.split(' ')[0]}"] += 1
            if obs != "equal":
                # is it the decoration? the undecorated twin must capture fine
                try:
                    mu = make(und_ns["__plain__"][name] if mode == "script" else U)
                    mu(**dict(zip(pnames, good))) if mode == "trace-kwargs" else mu(*good)
                    run.findings.append(Finding("failing-input", f"{name} under {mode}: decorated module {obs}, the undecorated twin captures and runs", Case(line + "\tconforming", "torch"), obs))
                except Exception:  # noqa: BLE001
                    run.notes.append(f"{name}/{mode}: neither twin captures ({obs[:60]}) - not attributable to the decoration")
                continue
            if len(run.samples) < 8:
                run.samples.append({"case": line, "conforming": obs})
            if bad is None or mode.startswith("trace") or md is None:
                continue
            run.n_cases += 1
            run.n_distinct_nontrivial += 1
            try:
                md(*bad)
                got = "no-error"
            except dltype.DLTypeError as e:
                got = "dltype " + type(e).__name__
            except Exception as e:  # noqa: BLE001
                # script mode strips the decoration (documented: jit script does not support Annotated): any failure is torch's own
                got = "other " + type(e).__name__
            run.dist[f"{mode}:bad:{got.split(' ')[0]}"] += 1
            if not got.startswith("dltype"):
                run.findings.append(Finding("failing-input", f"{name} under {mode}: a non-conforming input gives {got}, expected the dltype error", Case(line + "\tnon-conforming", "torch"), got))
    run.coverage["modules"] = len(inputs)
    run.coverage["modes"] = modes
