"""C16 — apart from checking, decorated functions and classes behave like the originals.

Lean carries the call-transparency clauses as trace theorems (Properties/C16.lean, shared with C02b/C07);
name/doc/signature, equality, repr, isinstance, immutability and pickling are CPython / dataclass /
NamedTuple behaviour with no logic of dltype's to model: they are observed against an undecorated twin.
"""
from __future__ import annotations

import dataclasses
import inspect
import itertools
import pickle
import sys
import types
import typing

import numpy as np

import impl
from framework import Case
from impl import dltype

PROP = "C16"
GENERATED = ['Wrapper', 'Classes', 'SrcDecorate', 'SrcHints', 'HintLoop', 'Decorate', 'ClassDecor', 'Resolve', 'SrcSurface']  # generated files this check's tie depends on
LEAN_MODULES = ["Properties.C16", "Properties.CoreWrap", "Properties.CoreClasses", "Properties.Prov.Decorate", "Properties.Prov.Hints", "Properties.CoreHints", "Properties.CoreDecorate", "Properties.CoreClassDecor", "Properties.CoreResolve", "Properties.Prov.Surface"]
LEVEL = "proof"
RULE = (
    "exhaustive over a family of signature shapes: 1-3 parameters x kinds {positional-only, positional-or-keyword, keyword-only} x "
    "{annotated tensor, plain} x defaults {none, conforming tensor, violating tensor, [], {}, None, 3, (1,2)} x binding {function, method, "
    "classmethod, staticmethod} x call style {positional, keyword, defaults omitted}; every case is run on a decorated function and on its "
    "undecorated twin (name, doc, signature, arguments seen by the body, returned object, propagated exception), plus a `functools.wraps` decorator underneath that records how every argument arrives; dataclass option sets "
    "{frozen, slots, kw_only, eq, defaults} and NamedTuples with/without defaults: fields, ==, repr, isinstance, immutability, pickle, copy; dataclasses with annotated names "
    "that hold no value after __init__ (field(init=False), ClassVar, InitVar, a tensor set in __post_init__, with slots / frozen); bodies (and __init__ / __post_init__ of decorated dataclasses) raising exception objects of 21 classes "
    "(ValueError, TypeError, KeyError, StopIteration, KeyboardInterrupt, SystemExit, GeneratorExit, an ExceptionGroup, a DLTypeError of an inner check, ...) under every kind of return hint: the caller catches that very object. "
    "non-trivial = distinct case with at least one annotated parameter/field"
)
RULE += " Also: bodies returning one-shot iterators / a lazily inspected object; field names the decorators use internally. Annotated *args / **kwargs next to a dltype parameter; annotated fields with a tensor default left out by the caller."
TRUSTED_EXTRA = ["observed-only (not proved): functools.wraps metadata, dataclass/NamedTuple equality, repr, immutability, pickling"]

MOD = types.ModuleType("verif_c16")
sys.modules["verif_c16"] = MOD
MOD.__dict__.update({"np": np, "dltype": dltype, "typing": typing, "dataclasses": dataclasses, "Annotated": typing.Annotated})


class BodyBoom(Exception):
    pass


MOD.BodyBoom = BodyBoom
MOD.BOOM = BodyBoom("boom")
MOD.GOOD = np.zeros((2, 3), dtype=np.float32)
MOD.BAD = np.zeros((2, 3, 4), dtype=np.float32)
MOD.A = dltype.FloatTensor["a b"]

KINDS = ["po", "pk", "ko"]
DEFAULTS = ["-", "GOOD", "BAD", "[]", "{}", "None", "3", "(1, 2)"]


def sig_src(params) -> str:
    """params: list of (name, kind, annotated, default)"""
    parts, seen_ko, po_open = [], False, False
    for i, (n, k, ann, d) in enumerate(params):
        if k == "ko" and not seen_ko:
            if po_open:
                parts.append("/")
                po_open = False
            parts.append("*")
            seen_ko = True
        if k == "po":
            po_open = True
        elif po_open:
            parts.append("/")
            po_open = False
        s = n + (": Annotated[np.ndarray, A]" if ann else "")
        if d != "-":
            s += (" = " if ann else "=") + d
        parts.append(s)
    if po_open:
        parts.append("/")
    return ", ".join(parts)


def valid_order(params) -> bool:
    order = {"po": 0, "pk": 1, "ko": 2}
    ks = [order[p[1]] for p in params]
    if ks != sorted(ks):
        return False
    # non-default after default only allowed for keyword-only
    seen_def = False
    for n, k, ann, d in params:
        if k == "ko":
            continue
        if d != "-":
            seen_def = True
        elif seen_def:
            return False
    return True


def build(params, binding: str, raises: bool, unres: bool = False):
    names = [p[0] for p in params]
    body = '    """doc of f"""\n    LOG.append((' + "".join(n + ", " for n in names) + "))\n"
    body += "    raise BOOM\n" if raises else "    return LOG[-1]\n"
    sig = sig_src(params)
    # `unres`: a return hint naming something that is never defined -> the hints cannot be resolved, the wrapper
    # warns and must hand the call through untouched (positional AND keyword arguments)
    ret = ' -> "NeverDefinedAnywhere"' if unres else ""
    src = ""
    for tag, dec in (("dec", "@dltype.dltyped()\n"), ("raw", "")):
        if binding == "function":
            src += f"{dec}def f_{tag}({sig}){ret}:\n{body}"
        else:
            first = {"method": "self", "classmethod": "cls", "staticmethod": ""}[binding]
            inner_dec = "".join("    " + l + "\n" for l in dec.splitlines())
            wrap = {"method": "", "classmethod": "    @classmethod\n", "staticmethod": "    @staticmethod\n"}[binding]
            fs = ", ".join(x for x in [first, sig] if x)
            if fs.startswith(("self, /", "cls, /")):
                pass
            src += f"class K_{tag}:\n{wrap}{inner_dec}    def f({fs}){ret}:\n" + "".join("    " + l + "\n" for l in body.splitlines())
    MOD.LOG = []
    exec(compile(src, "<c16>", "exec"), MOD.__dict__)  # noqa: S102
    if binding == "function":
        return MOD.f_dec, MOD.f_raw
    if binding == "method":
        return MOD.K_dec().f, MOD.K_raw().f
    return MOD.K_dec.f, MOD.K_raw.f


def call_args(params, style: str):
    """positional where possible / keyword where possible / omit everything that has a default"""
    args, kwargs = [], {}
    for n, k, ann, d in params:
        if style == "omit" and d != "-":
            continue
        v = MOD.GOOD if ann else 7
        if k == "po" or (k == "pk" and style == "pos" and not kwargs):
            args.append(v)
        else:
            kwargs[n] = v
    return args, kwargs


def observe_func(case) -> str:
    params, binding, style, raises = case.meta["params"], case.meta["binding"], case.meta["style"], case.meta["raises"]
    unres = case.meta.get("unres", False)
    try:
        dec, raw = build(params, binding, raises, unres)
    except SyntaxError as e:
        return "skip-invalid-signature " + str(e)[:40]
    diffs = []
    if dec.__name__.replace("_dec", "") != raw.__name__.replace("_raw", "") or dec.__qualname__.replace("_dec", "") != raw.__qualname__.replace("_raw", ""):
        diffs.append("name")
    if dec.__doc__ != raw.__doc__:
        diffs.append("doc")
    if str(inspect.signature(dec)) != str(inspect.signature(raw)):
        diffs.append("signature")
    args, kwargs = call_args(params, style)
    outs = []
    for f in (dec, raw):
        MOD.LOG.clear()
        try:
            r = f(*args, **kwargs)
            outs.append(("ret", r, list(MOD.LOG)))
        except BodyBoom as e:
            outs.append(("boom", e, list(MOD.LOG)))
        except dltype.DLTypeError as e:
            outs.append(("dltype", type(e).__name__, list(MOD.LOG)))
        except Exception as e:  # noqa: BLE001
            outs.append(("exc", type(e).__name__, list(MOD.LOG)))
    d, r = outs
    bad_default_used = any(dft == "BAD" and ann and (style == "omit") for n, k, ann, dft in params)
    nonarray_default_used = any(dft not in ("-", "GOOD", "BAD") and ann and (style == "omit") for n, k, ann, dft in params)
    if (bad_default_used or nonarray_default_used) and not unres:
        # a default value is checked like a passed one
        if d[0] != "dltype" or d[2]:
            diffs.append(f"violating-default-not-rejected({d[0]})")
        return "differs " + ",".join(diffs) if diffs else "same default-rejected"
    if d[0] != r[0]:
        diffs.append(f"outcome({d[0]} vs {r[0]}:{d[1] if d[0] in ('exc', 'dltype') else ''})")
    else:
        if d[0] == "ret":
            # (literal defaults such as [] are distinct objects in the two definitions: compare those by value)
            if len(d[1]) != len(r[1]) or any(not (a is b or (not isinstance(a, np.ndarray) and type(a) is type(b) and a == b)) for a, b in zip(d[1], r[1])):
                diffs.append("arguments-seen-by-body")
        if d[0] == "boom" and d[1] is not r[1]:
            diffs.append("exception-object")
        if len(d[2]) != len(r[2]):
            diffs.append("body-calls")
    return "differs " + ",".join(diffs) if diffs else "same"


def func_cases(tier, rng):
    out = []
    names = ["x", "y", "z"]
    bindings = ["function", "method", "classmethod", "staticmethod"]
    for n in (1, 2, 3):
        combos = itertools.product(*[[(k, a, d) for k in KINDS for a in (0, 1) for d in DEFAULTS] for _ in range(n)])
        combos = list(combos)
        if n == 3:
            combos = rng.sample(combos, 1500 if tier == "quick" else 20000)
        elif n == 2 and tier == "quick":
            combos = rng.sample(combos, 1200)
        for combo in combos:
            params = [(names[i], k, a, d) for i, (k, a, d) in enumerate(combo)]
            if not valid_order(params) or not any(p[2] for p in params):
                continue
            for binding in (bindings if n == 1 else [rng.choice(bindings)]):
                for style in ("pos", "kw", "omit"):
                    meta = {"params": params, "binding": binding, "style": style, "raises": rng.random() < 0.25}
                    out.append(Case(f"TWINFUNC\t{binding}\t{style}\t{sig_src(params)}\t{'raises' if meta['raises'] else 'returns'}", "func", meta))
                    if n <= 2 and rng.random() < (0.5 if n == 1 else 0.12):
                        m2 = dict(meta, unres=True)
                        out.append(Case(f"TWINFUNC\t{binding}\t{style}\t{sig_src(params)}\t{'raises' if meta['raises'] else 'returns'}\tunresolvable-hints", "func", m2))
    return out


# ---- classes ------------------------------------------------------------------------------------------

DC_OPTS = [dict(), dict(frozen=True), dict(slots=True), dict(kw_only=True), dict(frozen=True, slots=True), dict(eq=False), dict(order=True), dict(frozen=True, kw_only=True)]


def observe_class(case) -> str:
    kind, opts, with_default = case.meta["kind"], case.meta["opts"], case.meta["with_default"]
    dflt = " = 3" if with_default else ""
    ns = MOD.__dict__
    if kind == "dc":
        o = ", ".join(f"{k}={v}" for k, v in opts.items())
        src = f"@dltype.dltyped_dataclass()\n@dataclasses.dataclass({o})\nclass DC_dec:\n    x: Annotated[np.ndarray, A]\n    n: int{dflt}\n"
        src += f"@dataclasses.dataclass({o})\nclass DC_raw:\n    x: Annotated[np.ndarray, A]\n    n: int{dflt}\n"
        exec(compile(src, "<c16c>", "exec"), ns)  # noqa: S102
        D, R = ns["DC_dec"], ns["DC_raw"]
    else:
        src = f"@dltype.dltyped_namedtuple()\nclass NT_dec(typing.NamedTuple):\n    x: Annotated[np.ndarray, A]\n    n: int{dflt}\nNT_orig = NT_dec.__mro__[1]\n"
        src += f"class NT_raw(typing.NamedTuple):\n    x: Annotated[np.ndarray, A]\n    n: int{dflt}\n"
        exec(compile(src, "<c16c>", "exec"), ns)  # noqa: S102
        D, R = ns["NT_dec"], ns["NT_raw"]
    diffs = []
    kw = opts.get("kw_only", False)
    mk = (lambda C: C(x=MOD.GOOD, n=5)) if kw else (lambda C: C(MOD.GOOD, 5))
    d1, d2, r1, r2 = mk(D), mk(D), mk(R), mk(R)
    if with_default:
        dd = D(x=MOD.GOOD)
        if dd.n != 3:
            diffs.append("default")
    if (d1.x is not MOD.GOOD) or d1.n != 5:
        diffs.append("fields")
    if kind == "nt":
        if (d1 == d2) != (r1 == r2) or tuple(d1)[1] != 5 or d1._fields != r1._fields:
            diffs.append("eq/fields")
        if not isinstance(d1, ns["NT_orig"]) or not isinstance(d1, tuple):
            diffs.append("isinstance")
        if repr(d1).split("(", 1)[0] != "NT_dec":
            diffs.append("repr")
        try:
            d1.n = 9
            diffs.append("mutable")
        except AttributeError:
            pass
    else:
        if (d1 == d2) != (r1 == r2):
            diffs.append("eq")
        if repr(d1).replace("DC_dec", "C") != repr(r1).replace("DC_raw", "C"):
            diffs.append("repr")
        if not dataclasses.is_dataclass(d1) or [f.name for f in dataclasses.fields(d1)] != ["x", "n"]:
            diffs.append("fields()")
        if opts.get("frozen"):
            try:
                d1.n = 9
                diffs.append("mutable")
            except dataclasses.FrozenInstanceError:
                pass
        else:
            d1.n = 9
            if d1.n != 9:
                diffs.append("setattr")
    # picklability (module-level classes of an importable module)
    for inst, twin in ((mk(D), mk(R)),):
        try:
            back = pickle.loads(pickle.dumps(inst))
            if type(back) is not type(inst) or back.n != inst.n or back.x.shape != inst.x.shape:
                diffs.append("pickle-roundtrip")
        except Exception as e:  # noqa: BLE001
            try:
                pickle.dumps(twin)
                diffs.append(f"pickle({type(e).__name__})")
            except Exception:  # noqa: BLE001
                pass
    try:
        D(MOD.BAD, 5) if not kw else D(x=MOD.BAD, n=5)
        diffs.append("violating-construction-accepted")
    except dltype.DLTypeError:
        pass
    return "differs " + ",".join(diffs) if diffs else "same"


class Outer:
    """decorated classes defined inside another class (their qualified name is `Outer.X`)"""


MOD.Outer = Outer


def observe_nested(case) -> str:
    kind = case.meta["kind"]
    ns = MOD.__dict__
    if kind == "nt":
        src = "class Outer:\n    @dltype.dltyped_namedtuple()\n    class Rec(typing.NamedTuple):\n        x: Annotated[np.ndarray, A]\n        n: int = 3\n"
    else:
        src = "class Outer:\n    @dltype.dltyped_dataclass()\n    @dataclasses.dataclass(frozen=True)\n    class Rec:\n        x: Annotated[np.ndarray, A]\n        n: int = 3\n"
    exec(compile(src, "<c16n>", "exec"), ns)  # noqa: S102
    R = ns["Outer"].Rec
    diffs = []
    inst = R(MOD.GOOD, 5)
    if not R.__qualname__.endswith("Outer.Rec"):
        diffs.append("qualname")
    try:
        back = pickle.loads(pickle.dumps(inst))
        if type(back) is not R or back.n != 5:
            diffs.append("pickle-roundtrip")
    except Exception as e:  # noqa: BLE001
        diffs.append(f"pickle({type(e).__name__})")
    import copy

    try:
        c = copy.deepcopy(inst)
        if c.n != 5:
            diffs.append("deepcopy")
    except Exception as e:  # noqa: BLE001
        diffs.append(f"deepcopy({type(e).__name__})")
    try:
        R(MOD.BAD, 5)
        diffs.append("violating-construction-accepted")
    except dltype.DLTypeError:
        pass
    return "differs " + ",".join(diffs) if diffs else "same"


FIELD_SHAPES = {
    # annotated names that hold no value when the generated __init__ returns
    "late": ("", "    x: Annotated[np.ndarray, A]\n    late: int = dataclasses.field(init=False)\n", ()),
    "late-slots": ("slots=True", "    x: Annotated[np.ndarray, A]\n    late: int = dataclasses.field(init=False)\n", ()),
    "classvar": ("", "    x: Annotated[np.ndarray, A]\n    count: typing.ClassVar[int]\n", ()),
    "initvar": ("", "    x: Annotated[np.ndarray, A]\n    scale: dataclasses.InitVar[int] = 2\n    def __post_init__(self, scale):\n        self.s2 = scale * 2\n", ()),
    "initvar-nodefault": ("", "    x: Annotated[np.ndarray, A]\n    scale: dataclasses.InitVar[int]\n    def __post_init__(self, scale):\n        self.s2 = scale * 2\n", (3,)),
    "postinit-tensor": ("", "    x: Annotated[np.ndarray, A]\n    y: Annotated[np.ndarray, A] = dataclasses.field(init=False)\n    def __post_init__(self):\n        self.y = self.x\n", ()),
    "frozen-late": ("frozen=True", "    x: Annotated[np.ndarray, A]\n    late: int = dataclasses.field(init=False)\n", ()),
}


def observe_fields(case) -> str:
    opts, body, extra = FIELD_SHAPES[case.meta["shape"]]
    ns = MOD.__dict__
    src = f"@dltype.dltyped_dataclass()\n@dataclasses.dataclass({opts})\nclass DF_dec:\n{body}@dataclasses.dataclass({opts})\nclass DF_raw:\n{body}"
    try:
        exec(compile(src, "<c16f>", "exec"), ns)  # noqa: S102
    except Exception as e:  # noqa: BLE001
        return f"differs class-definition({type(e).__name__})"
    outs = []
    for C in (ns["DF_dec"], ns["DF_raw"]):
        try:
            inst = C(MOD.GOOD, *extra)
            outs.append("ok" if inst.x is MOD.GOOD else "ok-other-object")
        except Exception as e:  # noqa: BLE001
            outs.append(type(e).__name__)
    diffs = []
    if outs[0] != outs[1]:
        diffs.append(f"construction({outs[0]} vs {outs[1]})")
    try:
        ns["DF_dec"](MOD.BAD, *extra)
        diffs.append("violating-construction-accepted")
    except dltype.DLTypeError:
        pass
    except Exception as e:  # noqa: BLE001
        diffs.append(f"violating-construction({type(e).__name__})")
    return "differs " + ",".join(diffs) if diffs else "same"


def class_cases():
    out = []
    for opts in DC_OPTS:
        for wd in (False, True):
            out.append(Case(f"TWINCLASS\tdc\t{opts}\t{wd}", "class", {"kind": "dc", "opts": opts, "with_default": wd}))
    for wd in (False, True):
        out.append(Case(f"TWINCLASS\tnt\t{{}}\t{wd}", "class", {"kind": "nt", "opts": {}, "with_default": wd}))
    return out


EXC_HINTS = {"none": "", "single": " -> Annotated[np.ndarray, A]", "tuple": " -> tuple[Annotated[np.ndarray, A], Annotated[np.ndarray, A]]",
             "optional": " -> Annotated[np.ndarray, A] | None", "plain": " -> int"}


class _Stop(BaseException):
    """an exception outside the Exception hierarchy, like KeyboardInterrupt / SystemExit / GeneratorExit"""


def _exception_objects():
    inner_err = None
    try:
        dltype.FloatTensor["a b"].check(np.zeros((2,), np.float32), "inner")
    except dltype.DLTypeError as e:
        inner_err = e
    objs = [ValueError("too many values to unpack"), TypeError("unsupported"), KeyError("a"), IndexError(3), AttributeError("shape"), RuntimeError("cuda"),
            StopIteration(), AssertionError(), NameError("Late"), SyntaxError("bad"), ZeroDivisionError(), OSError(2, "no file"), NotImplementedError(),
            UserWarning("as an exception"), KeyboardInterrupt(), SystemExit(3), GeneratorExit(), _Stop(), BodyBoom("boom"), ExceptionGroup("g", [ValueError(1)])]
    if inner_err is not None:
        objs.append(inner_err)
    return objs


def observe_exception(case) -> str:
    """the body raises an exception OBJECT of some class; the caller must catch that very object, with its class, args and
    traceback chain untouched, whatever the return hint of the function says — and the body ran exactly once"""
    kind, ret, exc = case.meta["kind"], case.meta["ret"], case.meta["exc"]
    MOD.EXC = exc
    MOD.LOG = []
    body = "    LOG.append(1)\n    raise EXC\n"
    if kind == "func":
        src = f"@dltype.dltyped()\ndef f_exc(x: Annotated[np.ndarray, A]){EXC_HINTS[ret]}:\n{body}"
        exec(compile(src, "<c16exc>", "exec"), MOD.__dict__)  # noqa: S102
        call = lambda: MOD.f_exc(MOD.GOOD)  # noqa: E731
    elif kind == "method":
        src = f"class K_exc:\n    @dltype.dltyped()\n    def f(self, x: Annotated[np.ndarray, A]){EXC_HINTS[ret]}:\n" + "".join("    " + l + "\n" for l in body.splitlines())
        exec(compile(src, "<c16exc>", "exec"), MOD.__dict__)  # noqa: S102
        call = lambda: MOD.K_exc().f(MOD.GOOD)  # noqa: E731
    else:
        src = ("@dltype.dltyped_dataclass()\n@dataclasses.dataclass\nclass D_exc:\n    x: Annotated[np.ndarray, A]\n    def __post_init__(self):\n" if kind == "dc_post" else
               "@dltype.dltyped_dataclass()\n@dataclasses.dataclass\nclass D_exc:\n    x: Annotated[np.ndarray, A]\n    def __init__(self, x):\n") + "".join("    " + l + "\n" for l in body.splitlines())
        exec(compile(src, "<c16exc>", "exec"), MOD.__dict__)  # noqa: S102
        call = lambda: MOD.D_exc(MOD.GOOD)  # noqa: E731
    args0, ctx0, cause0 = exc.args, exc.__context__, exc.__cause__
    try:
        call()
        return "differs the-exception-was-swallowed"
    except BaseException as e:  # noqa: BLE001
        diffs = []
        if e is not exc:
            diffs.append(f"another-exception({type(e).__name__}: {str(e)[:60]})")
        elif e.args != args0 or e.__cause__ is not cause0 or (e.__context__ is not ctx0):
            diffs.append("exception-attributes-changed")
        if len(MOD.LOG) != 1:
            diffs.append(f"body-ran-{len(MOD.LOG)}-times")
        return "differs " + ",".join(diffs) if diffs else "same"


def exception_cases():
    out = []
    for i, exc in enumerate(_exception_objects()):
        for kind in ("func", "method", "dc_post", "dc_init"):
            for ret in (EXC_HINTS if kind in ("func", "method") else ["none"]):
                out.append(Case(f"BODYRAISES\t{kind}\treturn-hint={ret}\t{type(exc).__name__}", "exception", {"kind": kind, "ret": ret, "exc": exc}))
    return out


def observe_return_object(case) -> str:
    """what the body returns is handed to the caller as it is: a one-shot iterator (generator, map, zip, a file-like reader) still has
    all of its items, a lazily evaluated object has not been touched — with and without a return hint"""
    kind, hint = case.meta["kind"], case.meta["hint"]
    touched = []

    class Lazy:
        """an object that records every way of looking at it"""

        def __iter__(self):
            touched.append("iter")
            return iter(())

        def __len__(self):
            touched.append("len")
            return 0

        def __bool__(self):
            touched.append("bool")
            return True

        def __getitem__(self, i):
            touched.append("getitem")
            raise IndexError(i)

    rows = [np.zeros((2, 3), np.float32) + i for i in range(4)]
    make = {"generator": lambda: (r for r in rows), "map": lambda: map(lambda r: r, rows), "zip": lambda: zip(rows, rows), "iter(list)": lambda: iter(list(rows)),
            "reversed": lambda: reversed(rows), "dict-values-iterator": lambda: iter({i: r for i, r in enumerate(rows)}.values()), "lazy-object": Lazy}[kind]
    MOD.MAKE = make
    MOD.LOG = []
    src = f"@dltype.dltyped()\ndef f_ret(x: Annotated[np.ndarray, A]){hint}:\n    LOG.append(1)\n    return MAKE()\n"
    exec(compile(src, "<c16ret>", "exec"), MOD.__dict__)  # noqa: S102
    try:
        out = MOD.f_ret(MOD.GOOD)
    except Exception as e:  # noqa: BLE001
        return f"differs raised({type(e).__name__}: {str(e)[:60]})"
    diffs = []
    if kind == "lazy-object":
        if touched:
            diffs.append("returned-object-was-inspected(" + ",".join(touched) + ")")
    else:
        items = list(out)
        if len(items) != 4:
            diffs.append(f"iterator-handed-over-with-{len(items)}-of-4-items")
    if len(MOD.LOG) != 1:
        diffs.append(f"body-ran-{len(MOD.LOG)}-times")
    return "differs " + ",".join(diffs) if diffs else "same"


def return_object_cases():
    return [Case(f"RETURNS\t{k}\treturn-hint={h or 'none'}", "return-object", {"kind": k, "hint": h})
            for k in ("generator", "map", "zip", "iter(list)", "reversed", "dict-values-iterator", "lazy-object") for h in ("", " -> typing.Iterator", " -> object", " -> typing.Any")]


ODD_FIELD_NAMES = ["cls", "self", "cls_inner", "args", "kwargs", "name", "value", "field_name", "annotation", "ctx", "original_new", "original_init", "index", "count"]


def observe_field_names(case) -> str:
    """field names that collide with names the decorators use internally (`cls`, `self`, `args`, `kwargs`, ...): construction by position
    and by keyword behaves as on the undecorated twin"""
    kind, fname = case.meta["kind"], case.meta["fname"]
    if kind == "nt":
        src = "".join(f"{dec}class N_{tag}(typing.NamedTuple):\n    x: Annotated[np.ndarray, A]\n    {fname}: int = 3\n" for tag, dec in (("dec", "@dltype.dltyped_namedtuple()\n"), ("raw", "")))
    else:
        src = "".join(f"{dec}@dataclasses.dataclass\nclass N_{tag}:\n    x: Annotated[np.ndarray, A]\n    {fname}: int = 3\n" for tag, dec in (("dec", "@dltype.dltyped_dataclass()\n"), ("raw", "")))
    try:
        exec(compile(src, "<c16names>", "exec"), MOD.__dict__)  # noqa: S102
    except Exception as e:  # noqa: BLE001
        return f"skip-invalid-definition {type(e).__name__}" if fname in ("self",) and kind == "dc" else f"differs definition-raises({type(e).__name__}: {str(e)[:60]})"
    outs = []
    for cls in (MOD.N_dec, MOD.N_raw):
        row = []
        for how, call in (("pos", lambda c=cls: c(MOD.GOOD, 7)), ("kw", lambda c=cls: c(**{"x": MOD.GOOD, fname: 7})), ("kw-rev", lambda c=cls: c(**{fname: 7, "x": MOD.GOOD})),
                          ("default", lambda c=cls: c(MOD.GOOD)), ("bad", lambda c=cls: c(**{"x": MOD.BAD, fname: 7}))):
            try:
                inst = call()
                row.append((how, "ok", getattr(inst, fname), inst.x is MOD.GOOD or inst.x is MOD.BAD))
            except dltype.DLTypeError as e:
                row.append((how, "dltype " + type(e).__name__))
            except Exception as e:  # noqa: BLE001
                row.append((how, f"{type(e).__name__}: {str(e)[:50]}"))
        outs.append(row)
    d, r = outs
    diffs = [f"{a[0]}({a[1:]} vs {b[1:]})" for a, b in zip(d, r) if a != b and a[0] != "bad"]
    if d[-1][1] != "dltype DLTypeNDimsError":
        diffs.append(f"violating-field-not-rejected({d[-1][1]})")
    return "differs " + ",".join(diffs)[:300] if diffs else "same"


def field_name_cases():
    return [Case(f"FIELDNAME\t{k}\t{n}", "field-names", {"kind": k, "fname": n}) for k in ("nt", "dc") for n in ODD_FIELD_NAMES]


VARIADIC_SIGS = ["x: XA, *rest: int", "x: XA, **opts: typing.Any", "x: XA, *rest: int, k: float = 1.0, **opts: str",
                 "*xs: int, y: XA", "x: XA, *rest, **opts", "x: XA, /, *rest: 'np.ndarray', flag: bool = False"]


def observe_variadic(case) -> str:
    """`*args` / `**kwargs` parameters carrying ordinary (non-dltype) annotations next to a dltype parameter: decoration succeeds and the
    extra positionals / keywords reach the body as on the undecorated twin"""
    sig = case.meta["sig"]
    names = [p.split(":")[0].split("=")[0].strip().lstrip("*") for p in sig.split(",") if p.strip() not in ("/", "*")]
    body = "    LOG.append((" + "".join(n + ", " for n in names) + "))\n    return None\n"
    src = f"def v_raw({sig}):\n{body}"
    MOD.LOG = []
    MOD.XA = typing.Annotated[np.ndarray, MOD.A]
    exec(compile(src, "<c16var>", "exec"), MOD.__dict__)  # noqa: S102  (every signature of the family is valid: a SyntaxError here is a defect of the harness)
    try:
        exec(compile("@dltype.dltyped()\n" + src.replace("v_raw", "v_dec"), "<c16var>", "exec"), MOD.__dict__)  # noqa: S102
    except Exception as e:  # noqa: BLE001
        return f"differs decoration-raises({type(e).__name__}: {str(e)[:70]})"
    kw_first = sig.startswith("*xs")
    calls = [((1, 2), {"y": MOD.GOOD}), ((), {"y": MOD.GOOD})] if kw_first else [((MOD.GOOD,), {}), ((MOD.GOOD, 1, 2), {}), ((MOD.GOOD,), {"a": 1, "b": "s"}), ((MOD.GOOD, 5), {"k": 2.5, "c": "t"})]
    diffs = []
    for args, kwargs in calls:
        outs = []
        for f in (MOD.v_dec, MOD.v_raw):
            MOD.LOG.clear()
            try:
                f(*args, **kwargs)
                outs.append(("ok", [tuple(x if not isinstance(x, np.ndarray) else "arr" for x in rec) if isinstance(rec, tuple) else rec for rec in map(lambda r: tuple(map(lambda v: v if not isinstance(v, (tuple, dict)) else repr(v), r)), MOD.LOG)]))
            except Exception as e:  # noqa: BLE001
                outs.append((type(e).__name__, []))
        if outs[0] != outs[1]:
            diffs.append(f"call(args={len(args)},kwargs={sorted(kwargs)}): decorated {outs[0][0]} vs undecorated {outs[1][0]}")
    bad_args = ((), {"y": MOD.BAD}) if kw_first else ((MOD.BAD,), {})
    try:
        MOD.v_dec(*bad_args[0], **bad_args[1])
        diffs.append("violating-argument-accepted")
    except dltype.DLTypeError:
        pass
    except Exception as e:  # noqa: BLE001
        diffs.append(f"violating-argument-gives-{type(e).__name__}")
    return "differs " + "; ".join(diffs)[:300] if diffs else "same"


def variadic_cases():
    return [Case(f"VARIADIC\tdef f({s})", "variadic", {"sig": s}) for s in VARIADIC_SIGS]


def observe_class_defaults(case) -> str:
    """an annotated field with a TENSOR default, left out by the caller (NamedTuple / dataclass; by position and by keyword): the instance
    holds the default, as on the twin; a default that violates its annotation is refused"""
    kind, dflt = case.meta["kind"], case.meta["default"]
    head = {"nt": "class {n}(typing.NamedTuple):\n", "dc": "@dataclasses.dataclass\nclass {n}:\n"}[kind]
    dec = {"nt": "@dltype.dltyped_namedtuple()\n", "dc": "@dltype.dltyped_dataclass()\n"}[kind]
    dsrc = f"dataclasses.field(default_factory=lambda: {dflt})" if kind == "dc" else dflt
    fields = f"    x: Annotated[np.ndarray, A]\n    w: Annotated[np.ndarray, A] = {dsrc}\n    k: int = 3\n"
    src = dec + head.format(n="CD_dec") + fields + head.format(n="CD_raw") + fields
    try:
        exec(compile(src, "<c16dflt>", "exec"), MOD.__dict__)  # noqa: S102
    except Exception as e:  # noqa: BLE001
        return f"differs definition-raises({type(e).__name__}: {str(e)[:60]})"
    want_default = getattr(MOD, dflt)
    diffs = []
    for how, call in (("x by position", lambda c: c(MOD.GOOD)), ("x by keyword", lambda c: c(x=MOD.GOOD)), ("x and k", lambda c: c(MOD.GOOD, k=5))):
        outs = []
        for c in (MOD.CD_dec, MOD.CD_raw):
            try:
                inst = call(c)
                outs.append(("ok", inst.w is want_default, inst.k))
            except dltype.DLTypeError as e:
                outs.append(("dltype " + type(e).__name__,))
            except Exception as e:  # noqa: BLE001
                outs.append((type(e).__name__,))
        if dflt == "GOOD" and outs[0] != outs[1]:
            diffs.append(f"{how}: decorated {outs[0]} vs undecorated {outs[1]}")
        if dflt == "BAD" and outs[0] != ("dltype DLTypeNDimsError",):
            diffs.append(f"{how}: a violating default gives {outs[0]}")
    return "differs " + "; ".join(diffs)[:300] if diffs else "same"


def class_default_cases():
    return [Case(f"CLASSDEFAULT\t{k}\tw={d}", "class-defaults", {"kind": k, "default": d}) for k in ("nt", "dc") for d in ("GOOD", "BAD")]


def expect(case, got):
    if got.startswith("same") or got.startswith("skip"):
        return None
    return got


def custom(run, tier):
    # the decorated callable is called with exactly what the caller passed: only a callee that can tell `f(a, 2)` from `f(a, y=2)`
    # (another `functools.wraps` decorator underneath) notices — the pass-through observation of checks/c02.py
    from checks import c02

    c02.custom(run, tier, only_passthrough=True)
    # conforming calls through every feature of the call protocol (methods with the receiver by keyword, *args absorbing extra
    # positionals next to omitted keyword-only defaults, ...): the decorated function behaves like the undecorated one — it runs
    import gen_ctx
    import impl_call  # noqa: F401

    calls = []
    for _ in range(1500 if tier == "quick" else 20000):
        c = gen_ctx.gen_ctx(run.rng, perturb=(0,), tuple_p=0.25, ret_p=0.4)
        line = c.rand_call(run.rng)
        if run.rng.random() < 0.3 and "\tPD|" not in line and c.params and not c.params[-1].is_tuple and c.params[-1].slots[0].value[0] == "T":
            items = line.split("\t")
            k = max(i for i, it in enumerate(items) if it.startswith(("P|", "PE|")))
            items[k] = "PD|" + items[k].split("|", 1)[1]
            items[1] = items[1].split(":")[0] + ":pos"
            line = "\t".join(items + [run.rng.choice(["VA|rest|X;X", "VA|rest|X", "VA|rest|X;X;X"])])
        calls.append(Case(line, "call", {"ctx": c}))
    run.observe(calls, lambda case: impl.handle(case.line), lambda case, got: c02.judge(case, got, ""), "a conforming call through the decorated function does not behave like the plain call")
    cs = func_cases(tier, run.rng)
    run.observe(cs, observe_func, expect, "decorated function differs from its undecorated twin")
    run.observe(class_cases(), observe_class, expect, "decorated class differs from its undecorated twin")
    run.observe(exception_cases(), observe_exception, expect, "an exception raised by the body / by the class's own __init__ / __post_init__ does not reach the caller unchanged")
    run.observe(variadic_cases(), observe_variadic, expect, "a function with annotated *args / **kwargs next to a dltype parameter differs from its undecorated twin")
    run.observe(class_default_cases(), observe_class_defaults, expect, "a decorated class whose annotated field has a tensor default differs from its twin when the field is left out")
    run.observe(return_object_cases(), observe_return_object, expect, "the object the body returns is not handed to the caller as it is")
    run.observe(field_name_cases(), observe_field_names, expect, "a decorated class with a field whose name the decorator uses internally differs from its twin")
    fields = [Case(f"TWINFIELDS\t{k}", "fields", {"shape": k}) for k in FIELD_SHAPES]
    run.observe(fields, observe_fields, expect, "a decorated dataclass with an annotated name that holds no value after __init__ differs from its twin")
    nested = [Case(f"TWINNESTED\t{k}", "nested", {"kind": k}) for k in ("nt", "dc")]
    run.observe(nested, observe_nested, expect, "a decorated class defined inside another class misbehaves")
