"""Correspondence family `unwrap`: the regenerated `Gen.unwrapTypeAlias` (Generated/PydHook.lean, run through lean/UnwrapRun.lean)
against the real `unwrap_type_alias` on real `typing` objects, and — at the level of the property — the class-definition outcome of a
pydantic model whose numpy base type is spelled through an alias against the same model with the type written out."""
import itertools
import os
import subprocess
import typing
import warnings

import common
from framework import Case, Finding


def _objects(rng, n_random: int):
    import numpy as np
    import numpy.typing as npt
    import typing_extensions as te

    T = typing.TypeVar("T")
    S = typing.TypeVar("S", bound=np.generic)
    Any = typing.Any
    aliases = {
        "A_plain": typing.TypeAliasType("A_plain", np.ndarray),
        "A_list": typing.TypeAliasType("A_list", list[T], type_params=(T,)),
        "A_arr": typing.TypeAliasType("A_arr", np.ndarray[Any, np.dtype[S]], type_params=(S,)),
        "A_te": te.TypeAliasType("A_te", np.ndarray[Any, np.dtype[S]], type_params=(S,)),
        "A_dict": typing.TypeAliasType("A_dict", dict[T, S], type_params=(T, S)),
        "A_fixed": typing.TypeAliasType("A_fixed", np.ndarray[Any, np.dtype[np.float32]]),
        "NDArray": npt.NDArray,
    }
    aliases["A_alias"] = typing.TypeAliasType("A_alias", aliases["A_plain"])
    # a second, different alias of the SAME name in the same module (two functions that each define a local `Img`): resolved by the object, never by its spelling
    aliases["A_fixed2"] = typing.TypeAliasType("A_fixed", np.ndarray[Any, np.dtype[np.uint8]])
    aliases["A_arr2"] = typing.TypeAliasType("A_arr", list[S], type_params=(S,))
    if not hasattr(npt.NDArray, "__value__"):
        del aliases["NDArray"]  # an older numpy: a plain generic alias, covered by the `plain` stratum
    arity = {"A_list": 1, "A_arr": 1, "A_te": 1, "A_dict": 2, "NDArray": 1, "A_arr2": 1}
    scalars = [np.float32, np.float64, np.int32, np.uint8, np.bool_, int, str, np.float32 | np.float64, list[int], Any]
    out = []
    for o in (np.ndarray, list, dict, int, Any, np.float32, T, type(None)):
        out.append(("class", o))
    for o in (list[int], dict[str, int], np.ndarray[Any, np.dtype[np.float32]], np.ndarray[Any, np.dtype[np.float32 | np.float64]],
              np.ndarray[Any, np.dtype[np.float32] | np.dtype[np.int32]], typing.List[int], tuple[int, ...], np.dtype[np.int8],
              *(() if "NDArray" in aliases else (npt.NDArray[np.float32],))):
        out.append(("plain-subscripted", o))
    for name, a in aliases.items():
        out.append(("bare-alias", a))
    for name, k in arity.items():
        if name not in aliases:
            continue
        for args in itertools.product(scalars, repeat=k) if k == 1 else [tuple(rng.choice(scalars) for _ in range(k)) for _ in range(8)]:
            out.append(("subscripted-alias", aliases[name][args if k > 1 else args[0]]))
    for _ in range(n_random):
        name = rng.choice([n for n in arity if n in aliases])
        args = tuple(rng.choice(scalars) for _ in range(arity[name]))
        out.append(("subscripted-alias", aliases[name][args if len(args) > 1 else args[0]]))
    try:
        import torch

        out.append(("class", torch.Tensor))
        out.append(("bare-alias", typing.TypeAliasType("A_torch", torch.Tensor)))
    except ImportError:
        pass
    return out, aliases


def _spellings(aliases):
    import numpy as np

    S32, S64, I32 = np.float32, np.float64, np.int32
    spellings = []
    for sc in (S32, S64, I32, S32 | S64, S32 | I32):
        written = np.ndarray[typing.Any, np.dtype[sc]]
        for name in ("A_arr", "A_te", "NDArray"):
            if name in aliases:
                spellings.append((f"{name}[{sc!r}]", aliases[name][sc], written))
    spellings.append(("A_fixed", aliases["A_fixed"], np.ndarray[typing.Any, np.dtype[np.float32]]))
    spellings.append(("A_plain", aliases["A_plain"], np.ndarray))
    spellings.append(("A_fixed2[a second alias of the name A_fixed, declaring uint8]", aliases["A_fixed2"], np.ndarray[typing.Any, np.dtype[np.uint8]]))

    return spellings


class _Codec:
    """real typing objects <-> the prefix notation of lean/UnwrapRun.lean"""

    def __init__(self):
        self.ids: dict[int, int] = {}
        self.objs: list = []
        self.by_tree: dict[str, object] = {}

    def _leaf(self, o) -> int:
        k = self.ids.get(id(o))
        if k is None:
            k = len(self.objs)
            self.ids[id(o)] = k
            self.objs.append(o)
        return k

    def encode(self, o) -> str:
        origin = typing.get_origin(o)
        if origin is not None:
            args = typing.get_args(o)
            t = f"s {self.encode(origin)} {len(args)}" + "".join(" " + self.encode(a) for a in args)
        elif hasattr(o, "__value__"):
            t = f"a {self._leaf(o)} {self.encode(o.__value__)}"
        else:
            t = f"c {self._leaf(o)}"
        self.by_tree.setdefault(t, o)
        return t

    def _parse(self, toks: list[str]):
        """-> (tree text, python object)"""
        tag = toks.pop(0)
        if tag == "c":
            n = int(toks.pop(0))
            return f"c {n}", self.objs[n]
        if tag == "a":
            n = int(toks.pop(0))
            t, _ = self._parse(toks)
            return f"a {n} {t}", self.objs[n]
        head_t, head = self._parse(toks)
        k = int(toks.pop(0))
        parts = [self._parse(toks) for _ in range(k)]
        text = f"{tag} {head_t} {k}" + "".join(" " + t for t, _ in parts)
        if tag == "s" and text in self.by_tree:
            return text, self.by_tree[text]
        args = tuple(o for _, o in parts)
        return text, head[args if len(args) != 1 else args[0]]

    def decode(self, text: str):
        return self._parse(text.split())[1]


def run_model(lines: list[str]) -> list[str]:
    r = subprocess.run(["lake", "env", "lean", "--run", "UnwrapRun.lean"], cwd=common.LEAN_DIR, input="\n".join(lines) + "\n", capture_output=True, text=True, timeout=600)
    out = [l for l in r.stdout.splitlines() if l.strip()]
    if r.returncode != 0 or len(out) != len(lines):
        raise RuntimeError("UnwrapRun.lean: " + (r.stderr or r.stdout)[-400:])
    return out


def family(run, tier: str) -> None:
    import numpy as np
    import pydantic

    import impl

    dltype = impl.dltype
    from dltype._lib import _tensor_type_base as ttb

    objs, aliases = _objects(run.rng, 40 if tier == "quick" else 2000)
    codec = _Codec()
    lines = [codec.encode(o) for _, o in objs]
    if not os.path.exists(os.path.join(common.LEAN_DIR, ".lake", "build", "lib", "lean", "DltypeModel", "Generated", "PydHook.olean")):
        run.findings.append(Finding("broken-correspondence", "family unwrap: Generated/PydHook.lean is not built (the translation of unwrap_type_alias or of the pydantic hook broke)"))
        model = [None] * len(lines)
    else:
        model = run_model(lines)
    n = nontrivial = 0
    kinds: dict[str, int] = {}
    for (tag, o), line, m in zip(objs, lines, model):
        n += 1
        try:
            got = ttb.unwrap_type_alias(o)
            got_s = "ret"
        except Exception as e:  # noqa: BLE001
            got, got_s = None, "raise " + type(e).__name__
        # what Python itself says the alias stands for (independent of the model and of the code under test)
        origin = typing.get_origin(o)
        if origin is not None and hasattr(origin, "__value__"):
            want = origin.__value__[typing.get_args(o)]
            nontrivial += 1
        elif origin is None and hasattr(o, "__value__"):
            want = o.__value__
            nontrivial += 1
        else:
            want = o
        same = got_s == "ret" and (got is want or (got == want and type(got) is type(want)))
        kinds[tag] = kinds.get(tag, 0) + 1
        case = Case(f"UNWRAP\t{tag}\t{o!r}"[:300], "unwrap-" + tag)
        if m is not None:
            if m.startswith("ret "):
                mo = codec.decode(m[4:])
                if m[4:] == line:
                    mo = o  # the model hands the object on: the very object (two spellings can share one picture, `list[int]` / `typing.List[int]`)
                agree = got_s == "ret" and (got is mo or (got == mo and type(got) is type(mo)))
            else:
                agree = (m == "raise" and got_s.startswith("raise")) or (m == "retNone" and got_s == "ret" and got is None)
            if not agree:
                run.findings.append(Finding("broken-correspondence" if same else "failing-input",
                                            "unwrap_type_alias: the regenerated model and the code disagree on a typing object" + ("" if same else " (and the code's answer is not the type the alias stands for)"),
                                            case, f"{got_s} {got!r}"[:200], m[:200], f"{want!r}"[:200]))
                continue
        if not same:
            run.findings.append(Finding("failing-input", "a base type spelled through an alias is not resolved to the type it stands for (subscripted alias: its value with exactly the arguments written)",
                                        case, f"{got_s} {got!r}"[:200], (m or "")[:200], f"{want!r}"[:200]))
        if n % 9 == 0 and len(run.samples) < 14:
            run.samples.append({"op": case.line, "impl": f"{got_s} {got!r}"[:120], "model": (m or "")[:120], "tag": case.tag})
    # ---- at the level of the property: a model whose numpy base type is spelled through an alias is refused at class definition exactly
    # when the same model with the type written out is
    spellings = _spellings(aliases)

    def define(base, cls_):
        with warnings.catch_warnings():
            warnings.simplefilter("ignore")
            try:
                M = pydantic.create_model("M", __config__=pydantic.ConfigDict(arbitrary_types_allowed=True), x=(typing.Annotated[base, cls_["a"]], ...))
            except dltype.DLTypeError as e:
                return "refused " + type(e).__name__
            except Exception as e:  # noqa: BLE001
                return "pyexc " + type(e).__name__
            try:
                M(x=np.zeros((3,), np.float32))
                return "defined accepts-f32"
            except dltype.DLTypeError as e:
                return "defined rejects-f32 " + type(e).__name__
            except Exception as e:  # noqa: BLE001
                return "defined pyexc " + type(e).__name__

    for label, spelled, written in spellings:
        for cname in ("Float32Tensor", "FloatTensor", "IntTensor", "TensorTypeBase"):
            cls_ = getattr(dltype, cname)
            a, b = define(spelled, cls_), define(written, cls_)
            n += 1
            nontrivial += 1
            kinds["model-definition"] = kinds.get("model-definition", 0) + 1
            case = Case(f"UNWRAPDEF\t{label}\t{cname}", "unwrap-definition")
            if a != b:
                run.findings.append(Finding("failing-input", "a pydantic model whose numpy array base type is spelled through an alias does not behave as the same model with the type written out "
                                            "(class-definition cross-check of the declared scalar types, then one float32 value)", case, a, "", b))
            if len(run.samples) < 16 and cname == "IntTensor" and label.startswith(("NDArray", "A_arr")):
                run.samples.append({"op": case.line, "impl": a, "spec": b, "tag": case.tag})
    run.n_cases += n
    run.n_distinct_nontrivial += nontrivial
    for k, v in kinds.items():
        run.dist["unwrap-" + k] += v
    run.coverage["unwrap_type_alias"] = {"objects": kinds, "model": "Gen.unwrapTypeAlias via lean/UnwrapRun.lean"}


def forms(run, tier: str) -> None:
    """C14: a base type spelled through an alias gives, in each of the three decorator forms, the outcome of the same declaration with the type written out
    (decoration / class definition, one conforming and one violating value)"""
    import dataclasses
    import random

    import numpy as np

    import impl

    dltype = impl.dltype
    _, aliases = _objects(random.Random(0), 0)
    n = 0

    def outcome(kind, base, cls_, value):
        X = typing.Annotated[base, cls_["a"]]
        with warnings.catch_warnings():
            warnings.simplefilter("ignore")
            try:
                if kind == "func":
                    def f(x):
                        return None
                    f.__annotations__ = {"x": X}
                    g = dltype.dltyped()(f)
                elif kind == "nt":
                    g = dltype.dltyped_namedtuple()(typing.NamedTuple("NT", [("x", X)]))
                else:
                    g = dltype.dltyped_dataclass()(dataclasses.make_dataclass("DC", [("x", X)]))
            except dltype.DLTypeError as e:
                return "decor " + type(e).__name__
            except Exception as e:  # noqa: BLE001
                return "decor pyexc " + type(e).__name__
            try:
                g(value)
                return "ok"
            except dltype.DLTypeError as e:
                return "reject " + type(e).__name__
            except Exception as e:  # noqa: BLE001
                return "pyexc " + type(e).__name__

    values = {"f32(3)": np.zeros((3,), np.float32), "f32(3,2)": np.zeros((3, 2), np.float32), "i32(3)": np.zeros((3,), np.int32)}
    for label, spelled, written in _spellings(aliases):
        for cname in ("Float32Tensor", "IntTensor", "TensorTypeBase"):
            cls_ = getattr(dltype, cname)
            for kind in ("func", "nt", "dc"):
                for vname, v in values.items():
                    a, b = outcome(kind, spelled, cls_, v), outcome(kind, written, cls_, v)
                    n += 1
                    case = Case(f"UNWRAPFORM\t{kind}\t{label}\t{cname}\t{vname}", "unwrap-forms")
                    if a != b:
                        run.findings.append(Finding("failing-input", "a declaration whose base type is spelled through an alias does not give the verdict of the same declaration with the type written out",
                                                    case, a, "", b))
                    if n % 97 == 0 and len(run.samples) < 14:
                        run.samples.append({"op": case.line, "impl": a, "spec": b, "tag": case.tag})
    run.n_cases += n
    run.n_distinct_nontrivial += n
    run.dist["unwrap-forms"] += n
    run.coverage["alias_spelled_base_types"] = n
