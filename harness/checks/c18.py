"""C18 — symbolic shapes mean what the Python operator expression means."""
from __future__ import annotations

import itertools

import impl_sym
from framework import Case

PROP = "C18"
GENERATED = ['OpSemantics', 'ParserTables', 'SrcSymbolic', 'SrcShape', 'SymClasses', 'ShapeLoop']  # generated files this check's tie depends on
LEAN_MODULES = ["Properties.C18", "Properties.CoreSym", "Properties.Prov.Symbolic", "Properties.Prov.Shape"]
RULE = (
    "corpus; exhaustive expression trees with <=2 operator nodes over atoms {a, b, 0, 1, 2, 3} and operators + - * // ** Min Max ISqrt Group "
    "(every nesting on either side), seeded random trees to depth 6 (thorough: <=3 nodes exhaustive, depth 8); scopes with small values so "
    "that powers stay computable; operands ConstantAxis / AnonymousAxis for the TypeError clause; literals beyond 2^53 under every folding operation. non-trivial = distinct tree with >=2 operator nodes"
)
RULE += " Also SYMCHECK: the axis built from the symbolic classes as the axis of an annotation, checked against arrays of the size Python's arithmetic gives, one more, one less. Axis names that begin / end with or contain a function name."
ATOMS = ["a", "b", "1", "2", "3", "0"]
OPS2 = ["add", "sub", "mul", "div", "exp", "min", "max"]
OPS1 = ["isqrt", "grp"]
SCOPES = ["a:2;b:3", "a:5;b:2", "a:1;b:4"]


def trees(k, memo):
    if k in memo:
        return memo[k]
    if k == 0:
        memo[0] = list(ATOMS)
        return memo[0]
    out = []
    for i in range(k):
        for l in trees(i, memo):
            for r in trees(k - 1 - i, memo):
                for o in OPS2:
                    out.append(f"{o}({l},{r})")
    for t in trees(k - 1, memo):
        for o in OPS1:
            out.append(f"{o}({t})")
    memo[k] = out
    return out


def rand_tree(rng, depth):
    if depth <= 0 or rng.random() < 0.25:
        return rng.choice(ATOMS)
    if rng.random() < 0.8:
        return f"{rng.choice(OPS2)}({rand_tree(rng, depth - 1)},{rand_tree(rng, depth - 1)})"
    return f"{rng.choice(OPS1)}({rand_tree(rng, depth - 1)})"


def feasible(tree: str, scope: str) -> bool:
    """keep powers small: evaluate with Python ints under a cap"""
    toks = impl_sym.TOK.findall(tree)
    t, _ = impl_sym.parse_term(toks)
    sc = impl_sym.parse_scope(scope)

    class Big(Exception):
        pass

    def ev(t):
        if isinstance(t, int):
            return t
        k = t[0]
        if k == "var":
            return sc.get(t[1], 1)
        if k in ("const", "anon"):
            return 1
        xs = [ev(x) for x in t[1:]]
        try:
            if k == "add":
                return xs[0] + xs[1]
            if k == "sub":
                return xs[0] - xs[1]
            if k == "mul":
                return xs[0] * xs[1]
            if k == "div":
                return xs[0] // xs[1] if xs[1] else 1
            if k == "exp":
                if xs[1] < 0:
                    return 1
                if xs[1] > 64 or abs(xs[0]) > 10**6:
                    raise Big
                return xs[0] ** xs[1]
            if k == "min":
                return min(xs)
            if k == "max":
                return max(xs)
            if k == "isqrt":
                import math

                return math.isqrt(xs[0]) if xs[0] >= 0 else 1
            return xs[0]
        except OverflowError as e:
            raise Big from e

    try:
        v = ev(t)
    except Big:
        return False
    return abs(v) < 10**30


def cases(tier, rng, run):
    out = [Case(l, "corpus") for l in run.corpus_lines()]
    memo = {}
    kmax = 2 if tier == "quick" else 3
    for k in range(kmax + 1):
        ts = trees(k, memo)
        if k == 3:
            ts = rng.sample(ts, 80000)
        for t in ts:
            for sc in SCOPES[: (2 if k >= 2 else 3)]:
                if feasible(t, sc):
                    out.append(Case(f"SYM\t{t}\t{sc}", f"exh{k}"))
    for _ in range(6000 if tier == "quick" else 100000):
        t = rand_tree(rng, rng.randint(2, 6 if tier == "quick" else 8))
        sc = rng.choice(SCOPES)
        if feasible(t, sc):
            out.append(Case(f"SYM\t{t}\t{sc}", "rand"))
    # axis names that merely begin / end with or contain the name of a function are names
    for t, sc in (("add(max_len,1)", "max_len:3"), ("mul(minibatch,min(max_len,4))", "minibatch:2;max_len:7"), ("isqrt(isqrt_in)", "isqrt_in:17"), ("sub(imax,imin)", "imax:9;imin:2"),
                  ("max(min_size,div(maximum,2))", "min_size:3;maximum:10"), ("grp(minutes)", "minutes:5"), ("exp(min2,2)", "min2:3")):
        out.append(Case(f"SYM\t{t}\t{sc}", "fn-prefix-names"))
    # arithmetic on constant / anonymous axes must be refused
    for bad in ["const(k,3)", "anon(batch)", "anon()"]:
        for o in ["add", "sub", "mul", "div", "exp", "min", "max"]:
            for other in ["a", "2", "add(a,b)"]:
                out.append(Case(f"SYM\t{o}({other},{bad})\ta:2;b:3", "badoperand"))
                out.append(Case(f"SYM\t{o}({bad},{other})\ta:2;b:3", "badoperand"))
        for o in ["isqrt", "grp"]:
            # (a Group or a function around the axis must not launder it into an operand)
            out.append(Case(f"SYM\t{o}({bad})\ta:2;b:3", "badoperand"))
            out.append(Case(f"SYM\tadd(a,{o}({bad}))\ta:2;b:3", "badoperand"))
            out.append(Case(f"SYM\tmul({o}({bad}),2)\ta:2;b:3", "badoperand"))
    # two failures in one expression: every operation object is constructed (operands checked) before anything is printed, so
    # the refusal wins over a division by a literal zero / a negative power elsewhere, on either side and at any depth
    for bad in ["const(k,3)", "anon(batch)", "anon()"]:
        for boom in ["div(1,0)", "div(a,div(2,0))", "grp(div(3,0))", "isqrt(div(1,0))", "exp(2,sub(0,1))"]:
            for o in ["add", "sub", "mul", "div", "exp", "min", "max"]:
                out.append(Case(f"SYM\t{o}({boom},{bad})\ta:2;b:3", "badoperand"))
                out.append(Case(f"SYM\t{o}({bad},{boom})\ta:2;b:3", "badoperand"))
                out.append(Case(f"SYM\t{o}({boom},grp(mul(a,{bad})))\ta:2;b:3", "badoperand"))
                out.append(Case(f"SYM\tadd({o}({boom},b),isqrt({bad}))\ta:2;b:3", "badoperand"))
    for _ in range(300 if tier == "quick" else 5000):
        t = rand_tree(rng, rng.randint(2, 5))
        bad = rng.choice(["const(k,3)", "anon(batch)", "anon()"])
        atoms = [m for m in impl_sym.TOK.finditer(t) if m.group(0) in ATOMS]
        if atoms and "(" in t:  # (an axis on its own is not arithmetic)
            m = rng.choice(atoms)
            out.append(Case(f"SYM\t{t[:m.start()]}{bad}{t[m.end():]}\ta:2;b:3", "badoperand"))
    # literal folding is integer arithmetic at every size: literals beyond what a double holds exactly, just below / at / above a
    # perfect square, under every folding operation
    bigs = [(2**27) ** 2 - 1, (2**27) ** 2, 10**16 - 1, 10**16, (2**53 + 1), (3**20) ** 2 - 1, 2**62 - 57, 99999999999999999999]
    for L in bigs:
        for t in (f"isqrt({L})", f"add(isqrt({L}),a)", f"sub(isqrt({L}),grp(sub(a,4)))", f"div({L},3)", f"div({L},{2**31 - 1})", f"mul({L},3)", f"sub({L},1)",
                  f"min({L},{L + 1})", f"max({L},{L - 1})", f"add(a,div({L},7))", f"isqrt(mul({L},{L}))"):
            out.append(Case(f"SYM\t{t}\ta:5;b:2", "biglit"))
    # whole shapes: several entries, markers, constant axes; the annotation built from Shape[...] must be the one built
    # from the printed string (compared with the model's parse of the model's print)
    entries = ["a", "b", "3", "...", "anon(batch)", "const(k,3)", "add(a,1)", "mul(a,b)", "min(a,b)", "grp(sub(a,1))", "isqrt(a)", "div(a,2)",
               "div(1,0)", "add(a,const(k,3))", "grp(anon())"]
    for _ in range(1500 if tier == "quick" else 20000):
        k = rng.randint(1, 4)
        out.append(Case("SYMSHAPE\t" + ";".join(rng.choice(entries) for _ in range(k)), "shape"))
    return out


def judge(case, impl_out, spec):
    if case.tag == "shape":
        if " same-as-string=0" in impl_out:
            return "TensorType[Shape[...]] is not the annotation the class builds from the printed string: " + impl_out.split(" same-as-string=")[1]
        return None
    if case.tag == "badoperand" or "const(" in case.line or "anon(" in case.line:
        if impl_out != "printerr TypeError":
            return "arithmetic on a constant / anonymous axis is not refused with TypeError: " + impl_out
        return None
    if not spec.startswith("py="):
        return None
    py = spec[3:]
    if py == "undef":
        return None
    if impl_out.startswith("printerr"):
        return f"printing fails although Python evaluates the expression to {py}: {impl_out}"
    got = impl_out.split(" ", 1)[1] if " " in impl_out else impl_out
    if got != "val " + py:
        return f"the printed string {impl_out.split(' ')[0]} evaluates to {got}, Python's own evaluation gives {py}"
    return None


def nontrivial(case, impl_out):
    return case.line.count("(") >= 2


def _needs_parens(t, parent=None, is_right=False) -> bool:
    """would the string grammar regroup this tree when printed without parentheses? (region of F12a)"""
    PREC = {"add": 1, "sub": 1, "mul": 2, "div": 2, "exp": 3}
    if isinstance(t, int) or t[0] in ("var", "const", "anon"):
        return False
    k = t[0]
    if k in PREC and isinstance(t[1], int) and isinstance(t[2], int):
        return False  # folded to a literal
    here = False
    if k in PREC and parent in PREC:
        here = PREC[k] < PREC[parent] or (is_right and PREC[k] == PREC[parent])
    if k in PREC:
        return here or _needs_parens(t[1], k, False) or _needs_parens(t[2], k, True)
    return any(_needs_parens(x, None, False) for x in t[1:])


def _folds_negative(t) -> bool:
    """does a literal-literal operation fold to a negative number (printed as `-1`, not readable by the string grammar)?"""
    if isinstance(t, int):
        return t < 0
    if t[0] in ("var", "const", "anon"):
        return False
    if t[0] in ("sub", "add", "mul", "div", "exp", "min", "max") and isinstance(t[1], int) and isinstance(t[2], int):
        a, b = t[1], t[2]
        # (only the operation at hand is computed: a table of all seven would raise huge literals to huge powers)
        if t[0] == "sub":
            return a - b < 0
        if t[0] == "add":
            return a + b < 0
        if t[0] == "mul":
            return (a < 0) != (b < 0) and a != 0 and b != 0
        if t[0] == "div":
            return b != 0 and a != 0 and (a < 0) != (b < 0)
        if t[0] == "exp":
            return a < 0 and b >= 0 and b % 2 == 1
        if t[0] == "min":
            return min(a, b) < 0
        return max(a, b) < 0
    return any(_folds_negative(x) for x in t[1:])


def known_region(case, impl_out, model_out, spec):
    if "const(" in case.line or "anon(" in case.line:
        return None
    toks = impl_sym.TOK.findall(case.line.split("\t")[1])
    try:
        t, _ = impl_sym.parse_term(toks)
    except Exception:  # noqa: BLE001
        return None
    if _needs_parens(t):
        return "F12"
    if _folds_negative(t):
        return "F12n"
    return None


def py_value(tree: str, scope: str):
    """Python's own evaluation of the operator expression (ints): None where Python raises (division by zero, a negative power as an
    axis size is meaningless, the square root of a negative) or the numbers get out of hand"""
    import math

    toks = impl_sym.TOK.findall(tree)
    t, _ = impl_sym.parse_term(toks)
    sc = impl_sym.parse_scope(scope)

    def ev(t):
        if isinstance(t, int):
            return t
        k = t[0]
        if k == "var":
            return sc[t[1]]
        xs = [ev(x) for x in t[1:]]
        if k == "add":
            return xs[0] + xs[1]
        if k == "sub":
            return xs[0] - xs[1]
        if k == "mul":
            return xs[0] * xs[1]
        if k == "div":
            return xs[0] // xs[1]
        if k == "exp":
            if xs[1] < 0 or xs[1] > 64 or abs(xs[0]) > 10**6:
                raise ArithmeticError
            return xs[0] ** xs[1]
        if k == "min":
            return min(xs)
        if k == "max":
            return max(xs)
        if k == "isqrt":
            return math.isqrt(xs[0])
        if k == "grp":
            return xs[0]
        raise ArithmeticError

    try:
        return ev(t)
    except (ArithmeticError, ValueError, KeyError, TypeError):
        return None


def observe_check(case) -> str:
    """the axis built from the symbolic classes, as the ONLY axis of `FloatTensor[Shape[axis]]` (and after a plain `a b` tensor that
    binds the names), checked against arrays: the size Python's own arithmetic gives, one more, one less"""
    import numpy as np

    import impl
    from dltype._lib import _parser
    from dltype._lib._dltype_context import DLTypeContext

    dltype = impl.dltype
    tree, scope, v = case.meta["tree"], case.meta["scope"], case.meta["py"]
    toks = impl_sym.TOK.findall(tree)
    t, _ = impl_sym.parse_term(toks)
    try:
        axis = impl_sym.build(t)
        if isinstance(axis, int):
            axis = dltype.LiteralAxis(axis)
        shape = dltype.Shape[axis]
        text = str(shape)
        if _parser.expression_from_string(text).evaluate(impl_sym.parse_scope(scope)) != v:
            return "skip-printing-differs"    # (the rendering itself is judged by the SYM cases and the known findings on it)
        ann = dltype.FloatTensor[shape]
    except Exception as e:  # noqa: BLE001
        return "skip-" + type(e).__name__
    sc = impl_sym.parse_scope(scope)
    out = []
    for how in ("provider", "tensor"):
        for size in (v, v + 1, v - 1):
            if size < 0:
                continue
            ctx = DLTypeContext()
            try:
                if how == "provider":
                    ctx.tensor_shape_map = dict(sc)
                else:
                    ctx.add("names", (np.zeros((sc.get("a", 1), sc.get("b", 1)), np.float32),), (dltype.FloatTensor["a b"],))
                ctx.add("x", (np.zeros((size,), np.float32),), (ann,))
                ctx.assert_context()
                got = "accept"
            except dltype.DLTypeError as e:
                got = type(e).__name__
            except Exception as e:  # noqa: BLE001
                got = "EXC " + type(e).__name__
            want = "accept" if size == v else "DLTypeShapeError"
            if got != want:
                out.append(f"{how}: size {size} -> {got} (Python's value {v}, printed {text!r})")
    return "differs " + "; ".join(out)[:300] if out else "same"


def custom(run, tier):
    """the arithmetic a symbolic axis denotes is what the CHECKER demands of an array (not only what the printed string evaluates to)"""
    memo = {}
    cs = []
    for k in range(3):
        ts = trees(k, memo)
        if k == 2:
            ts = run.rng.sample(ts, min(len(ts), 2500 if tier == "quick" else 30000))
        for t in ts:
            for sc in SCOPES[:2]:
                v = py_value(t, sc)
                if v is not None and 0 <= v <= 4096:
                    cs.append(Case(f"SYMCHECK\t{t}\t{sc}", "symcheck", {"tree": t, "scope": sc, "py": v}))
    for t in ("grp(a)", "grp(grp(b))", "mul(add(2,1),2)", "exp(grp(3),2)", "isqrt(add(8,8))", "add(max(add(1,1),3),4)", "grp(3)", "mul(grp(a),1)", "min(grp(a),grp(b))", "grp(add(1,1))"):
        for sc in SCOPES:
            v = py_value(t, sc)
            if v is not None:
                cs.append(Case(f"SYMCHECK\t{t}\t{sc}", "symcheck", {"tree": t, "scope": sc, "py": v}))
    run.observe(cs, observe_check, lambda case, got: None if got.startswith(("same", "skip")) else got,
                "an array is accepted / refused against an axis built from the symbolic classes otherwise than Python's own arithmetic demands")
