"""C02 — no false rejects: conforming calls run once and return the same object."""
from __future__ import annotations

import gen_ctx
from checks import callcommon, ctxcommon
from framework import Case

PROP = "C02"
GENERATED = ['OpSemantics', 'DtypeTables', 'Core', 'Wrapper', 'SrcExpand', 'SrcHints', 'SrcDecorate', 'HintLoop', 'Decorate', 'ShapeLoop', 'SrcShape', 'Resolve', 'SrcSurface', 'SrcConstants']  # generated files this check's tie depends on
LEAN_MODULES = ["Properties.C02", "Properties.Core", "Properties.CoreWrap", "Properties.Prov.Expand", "Properties.Prov.Hints", "Properties.Prov.Decorate", "Properties.CoreHints", "Properties.CoreDecorate", "Properties.CoreShape", "Properties.Prov.Shape", "Properties.CoreResolve", "Properties.Prov.Surface", "Properties.Prov.Constants"]
RULE = (
    "seeded contexts that are conforming by construction (0 perturbations in 3 of 4 cases), ranks 0-5, zero-sized axes, zero-length groups, "
    "tuples of length 1-3, optionals, providers; each presented (a) directly to DLTypeContext and (b) as a call of a generated dltyped "
    "function in positional / keyword / mixed style (also with keyword-only and positional-only hinted parameters), with defaulted extra parameters of hashable and unhashable types; one annotation object behind a plain hint and a tuple hint (length one included) of the same call; the body counts its "
    "calls and records the identity of its arguments and of its result. non-trivial = distinct line judged 'conforms, ordered' by the oracle"
)
RULE += " Also: named literals inside literal-only annotations referred to later; providers whose method lives on the instance; every numpy spelling of the shared dtypes (C type codes, byte order, aliases); kwrev and forward-reference + positional-only call styles."

DEFAULTS = ["[]", "{}", "None", "3", "(1, 2)", "'s'", "{1, 2}", "[[1], {}]"]


def cases(tier, rng, run):
    out = [Case(l, "corpus") for l in run.corpus_lines()]
    n = 9000 if tier == "quick" else 120000
    for i in range(n):
        c = gen_ctx.gen_ctx(rng, perturb=(0, 0, 0, 1), tuple_p=0.25, ret_p=0.4)
        if i % 3 == 0:
            out.append(Case(c.ctx_line(), "ctx", {"ctx": c}))
        kind = "method" if rng.random() < 0.2 else "func"
        style = rng.choice(["pos", "kw", "kwrev", "mixed", "fwd", "fwdpos", "kwonly", "posonly"] + (["kwself", "kwself"] if kind == "method" else []))
        line = c.call_line(kind, style, prov=(("self" if c.scope else "-") if kind == "method" else None))
        r = rng.random()
        if r < 0.3:
            line += "\tD|opts|" + rng.choice(DEFAULTS)
        elif r < 0.5 and c.params and not c.params[-1].is_tuple and c.params[-1].slots[0].value[0] == "T":
            # the last hinted parameter gets a default that the caller omits; extra *args / **kwargs absorb arguments
            items = line.split("\t")
            k = max(i for i, it in enumerate(items) if it.startswith("P|"))
            items[k] = "PD|" + items[k][2:]
            extra = rng.choice(["VA|rest|X;X", "VK|options|axis=0;order=1", "VA|rest|X", ""])
            if extra.startswith("VA"):
                items[1] = f"{kind}:pos"
            line = "\t".join(items + ([extra] if extra else []))
        out.append(Case(line, "call", {"ctx": c}))
    # a type alias (ONE annotation object) used as a plain hint and inside a tuple hint of the same call, in both orders, the tuple
    # of length one included: caches keyed by the annotation must not confuse `T` with `tuple[T]`
    for spec, v in (("FloatTensor,0,a b", "T,0:float32,2.3"), ("IntTensor,0,*g 2", "T,1:int64,4.5.2"), ("TensorTypeBase,0,<None>", "T,2:bool,")):
        for style in ("pos", "kw"):
            for k in (1, 2):
                tup = f"T|{';'.join([spec] * k)}|U:{';'.join([v] * k)}"
                for items in ([f"P|x|S|{spec}|{v}", f"R|{tup}"], [f"P|t|{tup}", f"R|S|{spec}|{v}"], [f"P|x|S|{spec}|{v}", f"P|t|{tup}"], [f"P|t|{tup}", f"P|x|S|{spec}|{v}"],
                              [f"P|t|{tup}", f"R|{tup}"], [f"P|x|S|{spec}|{v}", f"P|t|{tup}", f"R|S|{spec}|{v}"]):
                    out.append(Case("\t".join(["CALL", f"func:{style}", "-", "", *items, "AL"]), "alias"))
    # a name introduced by a NAMED LITERAL in an annotation made only of literals / anonymous entries (a kernel size, a fixed channel
    # count) is a binding like any other: later annotations, tuple elements and the return annotation may refer to it
    fam = [("kh=3 kw=3", "3.3", "n kh*kw", "5.9"), ("... three=3 8", "2.3.8", "three n", "3.4"), ("2 n=3", "2.3", "n+1 2", "4.2"), ("k=4", "4", "k k", "4.4"),
           ("_ c=2", "7.2", "c*c", "4"), ("*_ w=5", "5", "w-1 w", "4.5"), ("a=1 b=2 c=3", "1.2.3", "a+b+c a*b*c", "6.6")]
    for lit, lv, ref, rv in fam:
        out.append(Case(f"CTX\t\tA|x|FloatTensor,0,{lit}|T,0:float32,{lv}\tA|y|FloatTensor,0,{ref}|T,0:float32,{rv}", "named-literal"))
        for style in ("pos", "kw"):
            px, py = f"P|x|S|FloatTensor,0,{lit}|T,0:float32,{lv}", f"P|y|S|FloatTensor,0,{ref}|T,0:float32,{rv}"
            out.append(Case("\t".join(["CALL", f"func:{style}", "-", "", px, py]), "named-literal"))
            out.append(Case("\t".join(["CALL", f"func:{style}", "-", "", px, f"R|S|FloatTensor,0,{ref}|T,0:float32,{rv}"]), "named-literal"))
            out.append(Case("\t".join(["CALL", f"func:{style}", "-", "", f"P|t|T|FloatTensor,0,{lit};FloatTensor,0,{ref}|U:T,0:float32,{lv};T,0:float32,{rv}"]), "named-literal"))
    return out


def judge(case, impl_out, spec):
    c = ctxcommon.ctx_of(case)
    if c is None:
        return None
    ents = c.entries()
    if ents is None:
        return None
    sp = ctxcommon.spec_of(case) if case.line.startswith("CTX") else None
    if sp is None:
        import oracle

        sp = oracle.spec_ctx(c.scope, ents, ctxcommon.accepts())
    if sp[0] != "conforms" or not sp[1]["ordered"]:
        return None
    names = [e.name for e in ents]
    if len(set(names)) != len(names):
        return None
    case.meta["conf"] = True
    if case.line.startswith("CTX"):
        if not impl_out.startswith("accept"):
            return "a conforming, ordered context is rejected: " + impl_out
        return None
    if "args-differ" in impl_out:
        return "the body did not receive the caller's argument objects"
    if "different-object" in impl_out:
        return "the caller did not receive the object the body returned"
    end = callcommon.end_of(impl_out)
    if end != "ok":
        return "a conforming call raised: " + impl_out
    if callcommon.field(impl_out, "calls") != "1":
        return "the body was not executed exactly once: " + impl_out
    return None


def nontrivial(case, impl_out):
    return bool(case.meta.get("conf"))


def stacked(run):
    """dltyped on top of another `functools.wraps` decorator: the callee underneath must still be CHECKED — a violating argument
    never reaches it (the signature is the wrapped function's, found through `__wrapped__`)"""
    import functools
    import typing
    import warnings

    import numpy as np

    import impl
    from framework import Finding

    dltype = impl.dltype
    A = typing.Annotated[np.ndarray, dltype.FloatTensor["a b"]]
    ns2 = {"A": A}
    bad_arr = np.zeros((2,), np.float32)
    exec("def real2(x: A, y=2.0):\n    return None\n", ns2)  # noqa: S102
    seen2 = []

    @functools.wraps(ns2["real2"])
    def inner2(*args, **kwargs):
        seen2.append((args, kwargs))
        return ns2["real2"](*args, **kwargs)

    with warnings.catch_warnings():
        warnings.simplefilter("ignore")
        dec2 = dltype.dltyped()(inner2)
    for how, call in (("positional", lambda: dec2(bad_arr)), ("keyword", lambda: dec2(x=bad_arr)), ("positional + keyword", lambda: dec2(bad_arr, y=1.0))):
        del seen2[:]
        try:
            call()
            got = "accepted"
        except dltype.DLTypeError as e:
            got = type(e).__name__
        except Exception as e:  # noqa: BLE001
            got = "EXC " + type(e).__name__
        run.n_cases += 1
        if got != "DLTypeNDimsError" or seen2:
            run.findings.append(Finding("failing-input", f"dltyped on top of another functools.wraps decorator: a violating argument passed {how} gives {got}, the callee was entered {len(seen2)} times "
                                        "(expected DLTypeNDimsError before the callee runs)", Case(f"STACKED\t{how}", "stacked"), got, "", "DLTypeNDimsError"))


def custom(run, tier, only_passthrough=False):
    """(1) Pass-through: the callee must receive EXACTLY the positional and keyword arguments the caller passed.  A plain
    function cannot tell `f(a, 2)` from `f(a, y=2)`; a callee with a `(*args, **kwargs)` body under a `functools.wraps`
    signature can, so that is what is decorated here, for every signature shape x call style of a small family.
    (2) Provider histories (the C12 generator): a call that conforms under the mapping its provider returns at that
    moment is never rejected — judged by the independent per-call oracle of checks/c12.py."""
    import functools
    import itertools
    import typing
    import warnings

    import numpy as np

    import impl
    from framework import Finding

    dltype = impl.dltype
    A = typing.Annotated[np.ndarray, dltype.FloatTensor["a b"]]
    good = np.zeros((2, 3), np.float32)
    sigs = {
        "(x: A)": (["x"], {}),
        "(x: A, y=2.0)": (["x", "y"], {"y": 2.0}),
        "(x: A, y: A = GOOD, *, out=None)": (["x", "y", "out"], {"y": good, "out": None}),
        "(x: A, /, y=1, *, z=3)": (["x", "y", "z"], {"y": 1, "z": 3}),
        "(*, x: A, flag=False)": (["x", "flag"], {"flag": False}),
        "(x: A, *rest, k=0)": (["x", "k"], {"k": 0}),
        "(x: A, **opts)": (["x"], {}),
    }
    n = 0
    for src, (names, defaults) in sigs.items():
        ns = {"A": A, "GOOD": good}
        exec(f"def real{src}:\n    return None\n", ns)  # noqa: S102
        real = ns["real"]
        seen = []

        @functools.wraps(real)
        def inner(*args, **kwargs):
            seen.append((args, dict(kwargs)))
            return real(*args, **kwargs)

        with warnings.catch_warnings():
            warnings.simplefilter("ignore")
            dec = dltype.dltyped()(inner)
        po = "/" in src
        ko = src.startswith("(*,")
        calls = []
        vals = {"x": good, "y": good if "y: A" in src else 5, "out": "o", "z": 9, "flag": True, "k": 4}
        for use_kw, omit in itertools.product((False, True), (False, True)):
            args, kwargs = [], {}
            for nm in names:
                if omit and nm in defaults:
                    continue
                kw_only = ko or nm in ("out", "z", "flag", "k")
                if kw_only or (use_kw and not (po and nm == "x")):
                    kwargs[nm] = vals[nm]
                else:
                    if kwargs and not kw_only:
                        kwargs[nm] = vals[nm]
                    else:
                        args.append(vals[nm])
            calls.append((tuple(args), kwargs))
        if "*rest" in src:
            calls.append(((good, 1, 2), {}))
            calls.append(((good, 1), {"k": 7}))
        if "**opts" in src:
            calls.append(((good,), {"axis": 0, "order": "C"}))
        for args, kwargs in calls:
            outs = []
            for f in (dec, inner):
                del seen[:]
                try:
                    f(*args, **kwargs)
                    outs.append(("ok", list(seen)))
                except Exception as e:  # noqa: BLE001
                    outs.append((type(e).__name__, list(seen)))
            n += 1
            (ds, dseen), (rs, rseen) = outs
            line = f"PASSTHROUGH\t{src}\targs={len(args)}\tkwargs={sorted(kwargs)}"

            def same(u, v):
                if len(u) != len(v):
                    return False
                for (a1, k1), (a2, k2) in zip(u, v):
                    if len(a1) != len(a2) or any(p is not q for p, q in zip(a1, a2)):
                        return False
                    if list(k1) != list(k2) or any(k1[k] is not k2[k] for k in k1):
                        return False
                return True

            if ds != rs or not same(dseen, rseen):
                def show(u):
                    return [(len(a), list(k)) for a, k in u]

                run.findings.append(Finding("failing-input", f"the wrapped callable of `def f{src}` was not executed with exactly the arguments the caller passed: "
                                            f"caller passed {len(args)} positional + keywords {list(kwargs)}; undecorated sees {rs} {show(rseen)}, decorated sees {ds} {show(dseen)}",
                                            Case(line, "passthrough"), f"{ds} {show(dseen)}", "", f"{rs} {show(rseen)}"))
            if n % 7 == 0 and len(run.samples) < 12:
                run.samples.append({"op": line, "impl": f"{ds} {[(len(a), list(k)) for a, k in dseen]}", "tag": "passthrough"})
    run.n_cases += n
    run.n_distinct_nontrivial += n
    run.dist["passthrough"] += n
    run.coverage["passthrough_calls"] = n

    if only_passthrough:
        return
    # (1a) every numpy SPELLING of a dtype conforms where the dtype does: C type codes (`q` = long long is int64 on this platform but
    # a scalar class of its own), byte-order marks, `np.dtype` objects built from names — the class table is about dtypes, not about
    # how an array's dtype object was obtained
    spell_n = 0
    by_name = {"int8": "Int8Tensor", "int16": "Int16Tensor", "int32": "Int32Tensor", "int64": "Int64Tensor", "uint8": "UInt8Tensor", "uint16": "UInt16Tensor",
               "uint32": "UInt32Tensor", "uint64": "UInt64Tensor", "float16": "Float16Tensor", "float32": "Float32Tensor", "float64": "Float64Tensor", "bool": "BoolTensor"}
    group = {"i": ["IntTensor", "SignedIntTensor"], "u": ["IntTensor", "UnsignedIntTensor"], "f": ["FloatTensor"], "b": []}
    for code in ["b", "B", "h", "H", "i", "I", "l", "L", "q", "Q", "p", "P", "n", "N", "e", "f", "d", "?", "=i8", "<i8", "<u2", "|u1", "<f4", "=f8", "int_", "intc", "uintc", "longlong", "ulonglong", "half", "single", "double"]:
        try:
            dt = np.dtype(code)
        except TypeError:
            continue
        if dt.name not in by_name:
            continue
        arr = np.zeros((3,), dtype=dt)
        for cname in [by_name[dt.name], *group[dt.kind], "TensorTypeBase"]:
            cls_ = getattr(dltype, cname, None)
            if cls_ is None:
                continue
            ns_s = {"T": typing.Annotated[np.ndarray, cls_["n"]]}
            exec("def f(x: T) -> T:\n    return x\n", ns_s)  # noqa: S102
            with warnings.catch_warnings():
                warnings.simplefilter("ignore")
                try:
                    got = "ok" if dltype.dltyped()(ns_s["f"])(arr) is arr else "different-object"
                except Exception as e:  # noqa: BLE001
                    got = type(e).__name__ + ": " + str(e)[:80]
            spell_n += 1
            if got != "ok":
                run.findings.append(Finding("failing-input", f"a numpy array whose dtype is spelled np.dtype({code!r}) (= {dt.name}, scalar class {dt.type.__name__}) does not conform to {cname}: {got}",
                                            Case(f"SPELLING\t{code}\t{dt.name}\t{cname}", "dtype-spelling"), got, "", "ok"))
    run.n_cases += spell_n
    run.n_distinct_nontrivial += spell_n
    run.dist["dtype-spellings"] += spell_n
    # (1b) re-entrancy: a decorated function entered again between its argument check and its return check (recursion, mutual
    # recursion, the same method on the nodes of a tree) — every level is a conforming call of its own, with sizes of its own
    ns2 = {"dltype": dltype, "A": A, "np": np, "CALLS": []}
    exec(compile(
        "@dltype.dltyped()\ndef rec(x: A, depth: int = 0) -> A:\n    CALLS.append(('rec', depth))\n    if depth < 3:\n        rec(np.zeros((x.shape[0] + 1, x.shape[1] + 2), np.float32), depth + 1)\n    return x\n"
        "@dltype.dltyped()\ndef ping(x: A, depth: int = 0) -> A:\n    CALLS.append(('ping', depth))\n    if depth < 3:\n        pong(np.zeros((x.shape[1], x.shape[0] + 1), np.float32), depth + 1)\n    return x\n"
        "@dltype.dltyped()\ndef pong(x: A, depth: int = 0) -> A:\n    CALLS.append(('pong', depth))\n    if depth < 3:\n        ping(np.zeros((x.shape[1] + 2, x.shape[0]), np.float32), depth + 1)\n    return x\n"
        "class Node:\n    def __init__(self, kids):\n        self.kids = kids\n    @dltype.dltyped()\n    def forward(self, x: A) -> A:\n        CALLS.append(('node', len(self.kids)))\n"
        "        for i, k in enumerate(self.kids):\n            k.forward(np.zeros((x.shape[0] + i + 1, 2), np.float32))\n        return x\n",
        "<reentrant>", "exec", dont_inherit=True), ns2)  # noqa: S102
    tree = ns2["Node"]([ns2["Node"]([ns2["Node"]([]), ns2["Node"]([])]), ns2["Node"]([])])
    for name, fn, want_calls in (("rec", lambda: ns2["rec"](good), 4), ("ping/pong", lambda: ns2["ping"](good), 4), ("tree of modules", lambda: tree.forward(good), 5)):
        del ns2["CALLS"][:]
        try:
            out = fn()
            got = "ok" if out is good else "ok-different-object"
        except Exception as e:  # noqa: BLE001
            got = type(e).__name__ + ": " + str(e)[:100]
        n += 1
        if got != "ok" or len(ns2["CALLS"]) != want_calls:
            run.findings.append(Finding("failing-input", f"re-entrant conforming calls ({name}): every level conforms on its own, but the outermost call gives {got} after {len(ns2['CALLS'])} body entries (expected ok after {want_calls})",
                                        Case(f"REENTRANT\t{name}", "reentrant"), got, "", "ok"))
    run.n_cases += 3
    run.n_distinct_nontrivial += 3
    run.dist["reentrant"] += 3
    stacked(run)
    # (2) provider histories
    from checks import c12

    m = bad = 0
    for _ in range(500 if tier == "quick" else 6000):
        line = c12.gen(run.rng, tier)
        got = impl.handle(line)
        m += 1
        try:
            exp = c12._expected(line)
        except Exception:  # noqa: BLE001
            continue
        parts = got.split(" ## ")
        if len(exp) != len(parts) - 1:
            continue
        for k, ((what, e), g) in enumerate(zip(exp, parts)):
            if what == "call" and e == "accepted" and g != "calls=1 ok":
                bad += 1
                if bad <= 3:
                    run.findings.append(Finding("failing-input", f"call #{k} of the history conforms under the mapping its scope provider returns at that moment, but: {g!r}",
                                                Case(line, "prov-hist"), got, "", "accepted"))
                break
    run.n_cases += m
    run.dist["prov-hist"] += m
    run.coverage["provider_histories"] = m
