"""C02 — no false rejects: conforming calls run once and return the same object."""
from __future__ import annotations

import gen_ctx
from checks import callcommon, ctxcommon
from framework import Case

PROP = "C02"
GENERATED = ['OpSemantics', 'DtypeTables']  # generated files this check's tie depends on
LEAN_MODULES = ["Properties.C02"]
RULE = (
    "seeded contexts that are conforming by construction (0 perturbations in 3 of 4 cases), ranks 0-5, zero-sized axes, zero-length groups, "
    "tuples of length 1-3, optionals, providers; each presented (a) directly to DLTypeContext and (b) as a call of a generated dltyped "
    "function in positional / keyword / mixed style, with defaulted extra parameters of hashable and unhashable types; the body counts its "
    "calls and records the identity of its arguments and of its result. non-trivial = distinct line judged 'conforms, ordered' by the oracle"
)

DEFAULTS = ["[]", "{}", "None", "3", "(1, 2)", "'s'", "{1, 2}", "[[1], {}]"]


def cases(tier, rng, run):
    out = [Case(l, "corpus") for l in run.corpus_lines()]
    n = 9000 if tier == "quick" else 120000
    for i in range(n):
        c = gen_ctx.gen_ctx(rng, perturb=(0, 0, 0, 1), tuple_p=0.25, ret_p=0.4)
        if i % 3 == 0:
            out.append(Case(c.ctx_line(), "ctx", {"ctx": c}))
        style = rng.choice(["pos", "kw", "mixed", "fwd"])
        line = c.call_line("func", style)
        r = rng.random()
        if r < 0.3:
            line += "\tD|opts|" + rng.choice(DEFAULTS)
        elif r < 0.5 and c.params and not c.params[-1].is_tuple and c.params[-1].slots[0].value[0] == "T":
            # the last hinted parameter gets a default that the caller omits; extra *args / **kwargs absorb arguments
            items = line.split("\t")
            k = max(i for i, it in enumerate(items) if it.startswith("P|"))
            items[k] = "PD|" + items[k][2:]
            extra = rng.choice(["VA|rest|X;X", "VK|options|axis=0;order=1", "VA|rest|X", ""])
            if extra.startswith("VA"):
                items[1] = "func:pos"
            line = "\t".join(items + ([extra] if extra else []))
        out.append(Case(line, "call", {"ctx": c}))
    return out


def judge(case, impl_out, spec):
    c = ctxcommon.ctx_of(case)
    if c is None:
        return None
    ents = c.entries()
    if ents is None:
        return None
    sp = ctxcommon.spec_of(case) if case.line.startswith("CTX") else None
    if sp is None:
        import oracle

        sp = oracle.spec_ctx(c.scope, ents, ctxcommon.accepts())
    if sp[0] != "conforms" or not sp[1]["ordered"]:
        return None
    names = [e.name for e in ents]
    if len(set(names)) != len(names):
        return None
    case.meta["conf"] = True
    if case.line.startswith("CTX"):
        if not impl_out.startswith("accept"):
            return "a conforming, ordered context is rejected: " + impl_out
        return None
    if "args-differ" in impl_out:
        return "the body did not receive the caller's argument objects"
    if "different-object" in impl_out:
        return "the caller did not receive the object the body returned"
    end = callcommon.end_of(impl_out)
    if end != "ok":
        return "a conforming call raised: " + impl_out
    if callcommon.field(impl_out, "calls") != "1":
        return "the body was not executed exactly once: " + impl_out
    return None


def nontrivial(case, impl_out):
    return bool(case.meta.get("conf"))
