"""C20 — import works for every installed-backend combination and exports match it."""
from __future__ import annotations

import concurrent.futures as cf
import itertools
import json
import os
import subprocess
import sys

import common
from framework import Case, Finding

PROP = "C20"
GENERATED = ['Selection', 'SrcPydantic', 'SrcDeps', 'PydHook']  # generated files this check's tie depends on
LEAN_MODULES = ["Properties.C20", "Properties.Prov.Pydantic", "Properties.Prov.Deps", "Properties.CorePyd"]
NEEDS_DTYPES = False
RULE = (
    "all eight availability combinations of {numpy, torch, jax}, each in a fresh interpreter (a meta-path finder blocks the absent "
    "libraries; numpy-less environments import torch first and mask numpy afterwards because torch itself needs numpy at import): import "
    "outcome, SUPPORTED_TENSOR_TYPES, DTYPES of all exported classes compared with the union of the per-library modules, BFloat16Tensor, and "
    "one accepted + two rejected checks per available library through each of the four entry points (function, NamedTuple, dataclass, pydantic model). The selection logic itself (if/elif chains of _dtypes.py and "
    "__init__.py, DTYPES expressions of _universal_tensors.py) is regenerated into Lean and decided over all 8 environments. "
    "exhaustive. non-trivial = every environment"
)
TRUSTED_EXTRA = ["jax without numpy is not realisable (jax imports numpy): such environments collapse to 'jax absent'"]

CODE = r'''
import sys, json, warnings; warnings.simplefilter("ignore")
have = set(sys.argv[1].split(",")) - {""}
repo = sys.argv[2]
blocked = {"numpy", "torch", "jax"} - have
if "numpy" not in have and "torch" in have:
    import torch  # torch needs numpy at import time; mask numpy afterwards
    for m in list(sys.modules):
        if m.split(".")[0] in blocked: del sys.modules[m]
class Blocker:
    def find_spec(self, name, path=None, target=None):
        if name.split(".")[0] in blocked: raise ImportError(f"blocked {name}")
        return None
sys.meta_path.insert(0, Blocker())
sys.path.insert(0, repo)
out = {}
try:
    import dltype
    out["import"] = "ok"
except ImportError as e:
    out["import"] = "ImportError"
except Exception as e:
    out["import"] = type(e).__name__ + ": " + str(e)[:100]
if out["import"] == "ok":
    out["supported"] = sorted(f"{t.__module__.split('.')[0]}.{t.__qualname__}" for t in dltype.SUPPORTED_TENSOR_TYPES)
    out["bf16_none"] = dltype.BFloat16Tensor is None
    names = ["FloatTensor","Float16Tensor","IEEE754HalfFloatTensor","BFloat16Tensor","Float32Tensor","Float64Tensor","DoubleTensor","IntTensor","SignedIntTensor","UnsignedIntTensor","Int8Tensor","Int16Tensor","Int32Tensor","Int64Tensor","UInt8Tensor","UInt16Tensor","UInt32Tensor","UInt64Tensor","BoolTensor"]
    def lib(d):
        s = str(d); return "torch" if s.startswith("torch.") else "numpy"
    out["dtypes"] = {n: (None if getattr(dltype, n) is None else sorted({lib(d) + ":" + (str(d).split(".")[-1] if lib(d) == "torch" else getattr(d, "__name__", str(d))) for d in getattr(dltype, n).DTYPES})) for n in names}
    out["per_module"] = {}
    if "torch" in have:
        from dltype._lib import _torch_tensors as tt
        out["per_module"]["torch"] = {n: sorted({"torch:" + str(d).split(".")[-1] for d in getattr(tt, n).DTYPES}) for n in names if hasattr(tt, n)}
    if "numpy" in have:
        from dltype._lib import _numpy_tensors as nt
        out["per_module"]["numpy"] = {n: sorted({"numpy:" + d.__name__ for d in getattr(nt, n).DTYPES}) for n in names if hasattr(nt, n)}
    from typing import Annotated
    calls = {}
    def try_lib(name, mk, base):
        # the same two fields through all four entry points (function, NamedTuple, dataclass, pydantic model)
        import dataclasses, typing
        X = Annotated[base, dltype.FloatTensor["a a"]]; Y = Annotated[base, dltype.IntTensor["a"]]
        forms = {}
        def f(x, y): return None
        f.__annotations__ = {"x": X, "y": Y}
        forms["dltyped"] = lambda: dltype.dltyped()(f)
        def mk_nt():
            NT = typing.NamedTuple("NT", [("x", X), ("y", Y)])
            return dltype.dltyped_namedtuple()(NT)
        forms["namedtuple"] = mk_nt
        def mk_dc():
            DC = dataclasses.make_dataclass("DC", [("x", X), ("y", Y)])
            return dltype.dltyped_dataclass()(DC)
        forms["dataclass"] = mk_dc
        def mk_pyd():
            import pydantic
            return pydantic.create_model("PM", x=(X, ...), y=(Y, ...))
        forms["pydantic"] = mk_pyd
        for form, build in forms.items():
            r = []
            try:
                obj = build()
            except Exception as e:
                calls[name + "/" + form] = ["BUILD " + type(e).__name__ + ": " + str(e)[:80]]
                continue
            for args in [(mk((2,2),"float32"), mk((2,),"int32")), (mk((2,3),"float32"), mk((2,),"int32")), (mk((2,2),"int32"), mk((2,),"int32"))]:
                try: obj(x=args[0], y=args[1]); r.append("ok")
                except dltype.DLTypeError as e: r.append(type(e).__name__)
                except Exception as e: r.append("EXC " + type(e).__name__)
            calls[name + "/" + form] = r
    if "numpy" in have:
        import numpy as np
        try_lib("numpy", lambda s, d: np.zeros(s, dtype=d), np.ndarray)
    if "torch" in have:
        import torch
        try_lib("torch", lambda s, d: torch.zeros(s, dtype=getattr(torch, d)), torch.Tensor)
    if "jax" in have and "numpy" in have:
        import jax, jax.numpy as jnp
        try_lib("jax", lambda s, d: jnp.zeros(s, dtype=d), jax.Array)
    out["calls"] = calls
print(json.dumps(out))
'''


def one(combo):
    have = ",".join(n for n, k in zip(["numpy", "torch", "jax"], combo) if k)
    env = dict(os.environ)
    env["JAX_PLATFORMS"] = "cpu"
    r = subprocess.run([sys.executable, "-c", CODE, have, common.REPO], capture_output=True, text=True, timeout=600, env=env)
    try:
        return combo, json.loads(r.stdout.strip().splitlines()[-1])
    except Exception:  # noqa: BLE001
        return combo, {"import": "CRASH " + (r.stderr.strip().splitlines()[-1][:200] if r.stderr.strip() else f"rc={r.returncode}")}


def custom(run, tier):
    combos = list(itertools.product([False, True], repeat=3))
    with cf.ThreadPoolExecutor(max_workers=8) as ex:
        results = list(ex.map(one, combos))
    for (np_, torch_, jax_), res in results:
        run.n_cases += 1
        run.n_distinct_nontrivial += 1
        line = f"IMPORT\tnumpy={int(np_)}\ttorch={int(torch_)}\tjax={int(jax_)}"
        c = Case(line, "env")

        def bad(msg):
            run.findings.append(Finding("failing-input", msg, c, json.dumps(res)[:300]))

        run.dist["env:" + res["import"].split(" ")[0]] += 1
        if len(run.samples) < 8:
            run.samples.append({"env": line, "import": res["import"], "supported": res.get("supported")})
        if not (np_ or torch_):
            if res["import"] != "ImportError":
                bad(f"neither numpy nor torch importable: expected ImportError, got {res['import']}")
            continue
        if res["import"] != "ok":
            bad(f"import fails although {'numpy' if np_ else 'torch'} is importable: {res['import']}")
            continue
        jax_eff = jax_ and np_
        want_sup = sorted((["jaxlib.Array"] if False else []) + (["numpy.ndarray"] if np_ else []) + (["torch.Tensor"] if torch_ else []))
        got_sup = sorted(s for s in res["supported"] if not s.startswith("jax"))
        if got_sup != want_sup or (any(s.startswith("jax") for s in res["supported"]) != jax_eff):
            bad(f"SUPPORTED_TENSOR_TYPES = {res['supported']}, importable libraries: numpy={np_} torch={torch_} jax={jax_eff}")
        if res["bf16_none"] != (not torch_):
            bad(f"BFloat16Tensor is None = {res['bf16_none']} with torch={torch_}")
        for n, got in res["dtypes"].items():
            if got is None:
                continue
            want = sorted(set(res["per_module"].get("torch", {}).get(n, [])) | set(res["per_module"].get("numpy", {}).get(n, [])))
            if got != want:
                bad(f"{n}.DTYPES = {got}; the importable libraries' own tables give {want}")
        for libname, r in res["calls"].items():
            if r != ["ok", "DLTypeShapeError", "DLTypeDtypeError"]:
                bad(f"checking {libname} arrays: verdicts {r}, expected ['ok', 'DLTypeShapeError', 'DLTypeDtypeError']")
        for libname, present in (("numpy", np_), ("torch", torch_), ("jax", jax_eff)):
            if present and libname + "/dltyped" not in res["calls"]:
                bad(f"{libname} is importable but no checked call was possible")
    run.coverage["interpreters"] = 8
    run.coverage["exhaustive"] = True
