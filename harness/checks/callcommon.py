"""Shared pieces of the entry-point checks: CALL lines from generated contexts, phase-wise oracle."""
from __future__ import annotations

import gen_ctx
import impl_call  # noqa: F401  (registers the CALL handler)
import oracle
from checks import ctxcommon
from framework import Case


def phase_spec(ctx: gen_ctx.Ctx):
    """(spec of the argument phase alone, spec of the whole context); None where the oracle does not apply"""
    acc = ctxcommon.accepts()
    args_only = gen_ctx.Ctx(scope=ctx.scope, params=ctx.params, ret=None)
    ea = args_only.entries()
    ew = ctx.entries()
    sa = oracle.spec_ctx(ctx.scope, ea, acc) if ea is not None else None
    sw = oracle.spec_ctx(ctx.scope, ew, acc) if ew is not None else None
    return sa, sw


def unsupported_first(ctx: gen_ctx.Ctx, with_ret=True):
    """does some annotated position hold a value that is not an array (X, or None without `| None`)?"""
    for p in [*ctx.params, *([ctx.ret] if (ctx.ret and with_ret) else [])]:
        for s in p.slots:
            if s.cls is None:
                continue
            if s.value[0] == "X" or (s.value[0] == "N" and not s.optional):
                return True
    return False


def end_of(impl_out: str) -> str:
    """strip `calls= pre=` / `identity` prefixes"""
    f = impl_out.split(" ")
    while f and (f[0].startswith(("calls=", "pre=")) or f[0] == "identity"):
        f = f[1:]
    return " ".join(f)


def field(impl_out: str, key: str):
    for f in impl_out.split(" "):
        if f.startswith(key + "="):
            return f[len(key) + 1 :]
    return None
