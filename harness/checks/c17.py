"""C17 — pydantic models: per-validation context in field order, clean public data."""
from __future__ import annotations

import gen_ctx
import impl_pyd  # noqa: F401
from framework import Case

PROP = "C17"
GENERATED = ['DtypeTables', 'Classes', 'SrcPydantic', 'PydHook', 'Core', 'ShapeLoop', 'Resolve', 'SrcSurface']  # generated files this check's tie depends on
LEAN_MODULES = ["Properties.C17", "Properties.CoreClasses", "Properties.Prov.Pydantic", "Properties.CorePyd", "Properties.Core", "Properties.CoreShape", "Properties.CoreResolve", "Properties.Prov.Surface"]
RULE = (
    "corpus; seeded models of 1-4 fields (annotated tensor fields over the context dimension alphabet, optional fields, plain int fields; base "
    "types np.ndarray, np.ndarray[Any, np.dtype[..]], npt.NDArray[..], torch.Tensor, jax.Array; validate_assignment on/off), each with 1-3 "
    "constructions with keywords in shuffled order (conforming / perturbed values, None for optional fields) followed by assignments; "
    "class-definition-time dtype cross-check with matching and contradicting declared scalar types, also for two fields that share one annotation object; every construction judged by the oracle on the fields in declaration order. non-trivial = distinct line with "
    "at least one annotated field and one construction"
)
RULE += (" Also: family `unwrap` — the regenerated `Gen.unwrapTypeAlias` (run through lean/UnwrapRun.lean) against the real `unwrap_type_alias` on real typing objects "
         "(classes, subscripted generics, bare and subscripted `type` aliases of typing / typing_extensions / numpy, alias of an alias), each also judged against what Python itself says the alias "
         "stands for; and pydantic models whose numpy base type is spelled through an alias against the same model with the type written out, x four tensor classes.")
RULE += " Also: abstract scalar classes (np.floating[Any], np.complexfloating[Any, Any], bare np.floating) as declared type x every class."

BASES = {0: ["nd", "nd", "npt", "ndg"], 1: ["torch"], 2: ["jax"]}


def gen_line(rng) -> str:
    c = gen_ctx.gen_ctx(rng, max_tensors=4, tuple_p=0.0, ret_p=0.0, provider_p=0.0, perturb=(0, 0, 0, 1))
    va = rng.random() < 0.5
    fields, vals = [], []
    for p in c.params:
        s = p.slots[0]
        lib = int(s.value[1].split(":")[0]) if s.value[0] == "T" else 0
        dtn = s.value[1] if s.value[0] == "T" and lib == 0 else "0:" + gen_ctx.CLASS_OK[s.cls]
        base = rng.choice(BASES[lib])
        if base == "ndg":
            base = "nd=" + dtn
            if rng.random() < 0.15 and s.cls in gen_ctx.CLASS_BAD:
                base = "nd=" + dtn + "+0:" + gen_ctx.CLASS_BAD[s.cls]
        elif base == "npt":
            base = "npt=" + dtn
        fields.append(f"F|{p.name}|{base}|{s.spec()}")
        vals.append(s.val())
        if rng.random() < 0.2:
            fields.append(f"F|k{len(fields)}|int|-")
            vals.append("X")
    steps = list(fields)
    n = len(fields)
    for _ in range(rng.randint(1, 3)):
        order = list(range(n))
        rng.shuffle(order)
        vs = list(vals)
        if rng.random() < 0.3:
            # perturb one tensor value
            i = rng.randrange(n)
            if vs[i].startswith("T,"):
                t, d, dims = vs[i].split(",")
                ds = [int(x) for x in dims.split(".")] if dims else []
                if ds:
                    j = rng.randrange(len(ds))
                    ds[j] += 1
                    vs[i] = f"T,{d},{'.'.join(map(str, ds))}"
        steps.append(f"N|{'.'.join(map(str, order))}|{';'.join(vs)}")
    for _ in range(rng.randint(0, 2)):
        i = rng.randrange(n)
        steps.append(f"S|{fields[i].split('|')[1]}|{vals[i]}")
    cfg = ("va=1" if va else "va=0") + (",ctx=1" if rng.random() < 0.3 else "")
    return "PYD\t" + cfg + "\t" + "\t".join(steps)


NP_SCALARS = ["float16", "float32", "float64", "int8", "int32", "int64", "uint8", "uint16", "bool"]


def cases(tier, rng, run):
    out = [Case(l, "corpus") for l in run.corpus_lines()]
    # class-definition-time cross-check, exhaustive: every exported class x declared numpy scalar type
    import translate

    for c in translate.CLASSES:
        for dt in NP_SCALARS:
            for base in ("npt", "nd"):
                out.append(Case(f"PYD\tva=0\tF|x|{base}=0:{dt}|{c},0,a b", "classdef", {"cls": c, "dt": dt}))
    # one annotation OBJECT (a type alias) behind two fields whose numpy base types declare different scalar types: each field's
    # declared type is cross-checked on its own
    from checks import ctxcommon

    acc = ctxcommon.accepts()
    for c in translate.CLASSES:
        oks = [d for d in NP_SCALARS if acc(c, "0:" + d)]
        bads = [d for d in NP_SCALARS if not acc(c, "0:" + d)]
        if not oks:
            continue
        for base in ("npt", "nd"):
            for second in [rng.choice(bads)] if bads else []:
                out.append(Case(f"PYD\tva=0,al=1\tF|x|{base}=0:{oks[0]}|{c},0,a b\tF|y|{base}=0:{second}|{c},0,a b", "classdef2", {"want": "reject"}))
                out.append(Case(f"PYD\tva=0,al=1\tF|x|{base}=0:{second}|{c},0,a b\tF|y|{base}=0:{oks[0]}|{c},0,a b", "classdef2", {"want": "reject"}))
            out.append(Case(f"PYD\tva=0,al=1\tF|x|{base}=0:{oks[0]}|{c},0,a b\tF|y|{base}=0:{oks[-1]}|{c},0,a b\tF|z|nd|{c},0,a b", "classdef2", {"want": "ok"}))
    # a name bound by one field and met again by a later one, zero sizes included: one context for the whole validation
    for c in gen_ctx.rebinding_contexts(with_provider=False) + gen_ctx.group_contexts():
        fields = [f"F|{p.name}|nd|{p.slots[0].spec()}" for p in c.params]
        vals = ";".join(p.slots[0].val() for p in c.params)
        n_f = len(c.params)
        for order in (".".join(map(str, range(n_f))), ".".join(map(str, reversed(range(n_f))))):
            out.append(Case("PYD\tva=0\t" + "\t".join(fields) + f"\tN|{order}|{vals}", "rebind"))
    # several declared scalar types, the union written inside np.dtype[...] or one level up, the contradicting one in any position
    for c in translate.CLASSES:
        oks = [d for d in NP_SCALARS if acc(c, "0:" + d)]
        bads = [d for d in NP_SCALARS if not acc(c, "0:" + d)]
        for base in ("nd", "ndu"):
            if oks and bads:
                b0 = rng.choice(bads)
                for decl in ([oks[0], b0], [b0, oks[0]], [oks[0], oks[-1], b0]):
                    out.append(Case(f"PYD\tva=0\tF|x|{base}=" + "+".join("0:" + d for d in decl) + f"|{c},0,a b", "classdef2", {"want": "reject"}))
            if len(oks) >= 2:
                out.append(Case(f"PYD\tva=0\tF|x|{base}=0:{oks[0]}+0:{oks[1]}|{c},0,a b", "classdef2", {"want": "ok"}))
    # abstract scalar classes (`np.floating[Any]`, `np.integer[Any]`, `np.complexfloating[Any, Any]`, bare `np.floating`) as the declared
    # type: they are not a dtype of any class, so every class that restricts dtypes refuses them at class definition
    for c in translate.CLASSES:
        restricts = not all(acc(c, "0:" + d) for d in NP_SCALARS)
        for base in ("npt", "nd"):
            for ab in ("floating[Any]", "integer[Any]", "signedinteger[Any]", "complexfloating[Any,Any]", "floating", "number[Any]"):
                if "," in ab and base == "nd":
                    continue
                out.append(Case(f"PYD\tva=0\tF|x|{base}=0:{ab}|{c},0,a b", "classdef2", {"want": "reject" if restricts else "ok"}))
    for _ in range(2500 if tier == "quick" else 40000):
        l = gen_line(rng)
        if rng.random() < 0.3:
            l = l.replace("\tva=", "\tal=1,va=", 1)
        out.append(Case(l, "gen"))
    return out


def _oracle_steps(case):
    """per operation of the line: 'conforms' / 'violates' / None — the documented rule on the fields in DECLARATION order"""
    import oracle
    from checks import ctxcommon

    steps = case.line.split("\t")[2:]
    fields = [s.split("|") for s in steps if s.startswith("F|")]
    res = []
    for st in steps:
        if st.startswith("F|"):
            continue
        if not st.startswith("N|"):
            res.append(None)
            continue
        vals = st.split("|")[2].split(";")
        if len(vals) != len(fields):
            res.append(None)
            continue
        ents, ok = [], True
        for (_f, name, _base, spec), v in zip(fields, vals):
            if spec == "-":
                continue
            cls, opt, shape = spec.split(",", 2)
            if v == "N" and opt == "1":
                continue
            if not v.startswith("T,"):
                ok = False
                break
            _t, code, dims = v.split(",")
            ents.append(oracle.Ent(name, cls, None if shape == "<None>" else shape, code, tuple(int(x) for x in dims.split(".")) if dims else ()))
        if not ok:
            res.append(None)
            continue
        sp = oracle.spec_ctx({}, ents, ctxcommon.accepts())
        res.append("violates" if sp[0] == "violates" else ("conforms" if sp[0] == "conforms" and sp[1]["ordered"] else None))
    return res


def judge(case, impl_out, spec):
    """spec-level expectations that do not need the model: clean public data; conforming assignment succeeds"""
    if case.tag == "classdef":
        from checks import ctxcommon

        ok = ctxcommon.accepts()(case.meta["cls"], "0:" + case.meta["dt"])
        if ok and impl_out.startswith("classdef"):
            return f"a numpy array type whose declared scalar type {case.meta['dt']} the class accepts is refused at class definition: {impl_out}"
        if not ok and not impl_out.startswith("classdef reject dtype"):
            return f"a numpy array type whose declared scalar type {case.meta['dt']} contradicts {case.meta['cls']} is not refused with the dtype error at class definition: {impl_out!r}"
        return None
    if case.tag == "classdef2":
        if case.meta["want"] == "reject" and not impl_out.startswith("classdef reject dtype"):
            return f"one of the scalar types the numpy base type of a field declares contradicts the class, but the class definition gives {impl_out!r}"
        if case.meta["want"] == "ok" and impl_out.startswith("classdef"):
            return f"every scalar type the numpy base types declare is accepted by the class, but: {impl_out!r}"
        return None
    parts = impl_out.split(" ## ")
    if not impl_out.startswith("classdef"):
        try:
            want = _oracle_steps(case)
        except Exception:  # noqa: BLE001
            want = []
        if len(want) == len(parts):
            for k, (w, got) in enumerate(zip(want, parts)):
                if w == "violates" and got.startswith("ok"):
                    return f"construction #{k} violates the annotations of its fields (taken in declaration order, one context for the validation) but the model was built"
                if w == "conforms" and not got.startswith("ok") and got != "pyd-validation":
                    return f"construction #{k} conforms to the annotations of its fields (declaration order) but: {got!r}"
    for p in parts:
        if p.startswith("ok clean=0"):
            return "public data of the model exposes more than the declared fields"
    steps = case.line.split("\t")[2:]
    # an assignment of the very value the instance was successfully built with must succeed (validate_assignment)
    ops = [s for s in steps if not s.startswith("F|")]
    if len(ops) == len(parts) and "va=1" in case.line.split("\t")[1]:
        last_ok_vals = None
        fields = [s.split("|")[1] for s in steps if s.startswith("F|")]
        for o, r in zip(ops, parts):
            if o.startswith("N|") and r.startswith("ok"):
                last_ok_vals = dict(zip(fields, o.split("|")[2].split(";")))
            elif o.startswith("N|"):
                pass
            elif o.startswith("S|") and last_ok_vals is not None:
                _, fn, v = o.split("|")
                if last_ok_vals.get(fn) == v and r.startswith("reject"):
                    return "assigning a conforming value (the one the instance was built with) raises: " + r
    if impl_out.startswith("classdef pyexc"):
        return "class definition fails with a non-dltype error: " + impl_out
    return None


def nontrivial(case, impl_out):
    return "N|" in case.line and ",0," in case.line or ",1," in case.line


def known_region(case, impl_out, model_out, spec):
    # F13: with validate_assignment the instance keeps the construction-time context
    if "va=1" in case.line.split("\t")[1] and "\tS|" in case.line:
        return "F13"
    return None


def custom(run, tier):
    """Nothing is shared between validations: nested models, repeated `model_validate`, and a caller-supplied
    validation-context dict (pydantic's `context=`) reused across validations and visible to nested models."""
    import typing
    import warnings

    import numpy as np
    import pydantic

    import impl
    from framework import Finding

    dltype = impl.dltype
    HW = typing.Annotated[np.ndarray, dltype.FloatTensor["h w"]]

    class Inner(pydantic.BaseModel):
        a: HW
        b: HW

    class Outer(pydantic.BaseModel):
        inner: Inner
        thumb: HW
        other: Inner

    def z(*s):
        return np.zeros(s, np.float32)

    n = 0
    shared = {"caller": "data"}
    for ctx_kw in ({}, {"context": shared}, {"context": {}}):
        for hi, ho, h2 in ((4, 2, 3), (2, 2, 2), (1, 5, 4)):
            for bad in (None, "inner", "thumb", "other"):
                data = {"inner": {"a": z(hi, 6), "b": z(hi + (1 if bad == "inner" else 0), 6)}, "thumb": z(ho, 3) if bad != "thumb" else z(ho, 3, 1),
                        "other": {"a": z(h2, 1), "b": z(h2, 1 + (1 if bad == "other" else 0))}}
                for rep in range(2):
                    with warnings.catch_warnings():
                        warnings.simplefilter("ignore")
                        try:
                            m = Outer.model_validate(data, **ctx_kw)
                            got = "ok" if list(m.model_dump().keys()) == ["inner", "thumb", "other"] and "__dltype__" not in repr(m) else "ok-unclean"
                        except dltype.DLTypeError as e:
                            got = "rejected " + type(e).__name__
                        except Exception as e:  # noqa: BLE001
                            got = "pyexc " + type(e).__name__
                    want = "ok" if bad is None else "rejected"
                    n += 1
                    line = f"NESTED\tcontext={'none' if not ctx_kw else ('shared-dict' if ctx_kw['context'] is shared else 'fresh-dict')}\tinner h={hi} thumb h={ho} other h={h2}\tfault={bad}\trepeat={rep}"
                    if not got.startswith(want) or got == "ok-unclean":
                        run.findings.append(Finding("failing-input", "nested / repeated validation: every model validation has its own context (the three models bind h, w independently); "
                                                    f"expected {want}, got {got}", Case(line, "nested"), got, "", want))
                    if n % 11 == 0 and len(run.samples) < 12:
                        run.samples.append({"op": line, "impl": got, "tag": "nested"})
    if shared != {"caller": "data"}:
        run.findings.append(Finding("failing-input", f"the caller's validation-context dict was modified by validation: {sorted(shared)}", Case("NESTED\tcontext=shared-dict", "nested"), str(sorted(shared)), "", "['caller']"))
    run.n_cases += n
    run.n_distinct_nontrivial += n // 2
    run.dist["nested"] += n
    run.coverage["nested_validations"] = n
    # the alias-resolving helper of the base type (`npt.NDArray[...]` is a `type`-statement alias): regenerated model against the code on
    # real typing objects, and the class-definition outcome of alias-spelled against written-out numpy base types
    from checks import unwrapcommon

    unwrapcommon.family(run, tier)
