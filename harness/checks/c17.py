"""C17 — pydantic models: per-validation context in field order, clean public data."""
from __future__ import annotations

import gen_ctx
import impl_pyd  # noqa: F401
from framework import Case

PROP = "C17"
GENERATED = ['DtypeTables']  # generated files this check's tie depends on
LEAN_MODULES = ["Properties.C17"]
RULE = (
    "corpus; seeded models of 1-4 fields (annotated tensor fields over the context dimension alphabet, optional fields, plain int fields; base "
    "types np.ndarray, np.ndarray[Any, np.dtype[..]], npt.NDArray[..], torch.Tensor, jax.Array; validate_assignment on/off), each with 1-3 "
    "constructions with keywords in shuffled order (conforming / perturbed values, None for optional fields) followed by assignments; "
    "class-definition-time dtype cross-check with matching and contradicting declared scalar types. non-trivial = distinct line with "
    "at least one annotated field and one construction"
)

BASES = {0: ["nd", "nd", "npt", "ndg"], 1: ["torch"], 2: ["jax"]}


def gen_line(rng) -> str:
    c = gen_ctx.gen_ctx(rng, max_tensors=4, tuple_p=0.0, ret_p=0.0, provider_p=0.0, perturb=(0, 0, 0, 1))
    va = rng.random() < 0.5
    fields, vals = [], []
    for p in c.params:
        s = p.slots[0]
        lib = int(s.value[1].split(":")[0]) if s.value[0] == "T" else 0
        dtn = s.value[1] if s.value[0] == "T" and lib == 0 else "0:" + gen_ctx.CLASS_OK[s.cls]
        base = rng.choice(BASES[lib])
        if base == "ndg":
            base = "nd=" + dtn
            if rng.random() < 0.15 and s.cls in gen_ctx.CLASS_BAD:
                base = "nd=" + dtn + "+0:" + gen_ctx.CLASS_BAD[s.cls]
        elif base == "npt":
            base = "npt=" + dtn
        fields.append(f"F|{p.name}|{base}|{s.spec()}")
        vals.append(s.val())
        if rng.random() < 0.2:
            fields.append(f"F|k{len(fields)}|int|-")
            vals.append("X")
    steps = list(fields)
    n = len(fields)
    for _ in range(rng.randint(1, 3)):
        order = list(range(n))
        rng.shuffle(order)
        vs = list(vals)
        if rng.random() < 0.3:
            # perturb one tensor value
            i = rng.randrange(n)
            if vs[i].startswith("T,"):
                t, d, dims = vs[i].split(",")
                ds = [int(x) for x in dims.split(".")] if dims else []
                if ds:
                    j = rng.randrange(len(ds))
                    ds[j] += 1
                    vs[i] = f"T,{d},{'.'.join(map(str, ds))}"
        steps.append(f"N|{'.'.join(map(str, order))}|{';'.join(vs)}")
    for _ in range(rng.randint(0, 2)):
        i = rng.randrange(n)
        steps.append(f"S|{fields[i].split('|')[1]}|{vals[i]}")
    return "PYD\t" + ("va=1" if va else "va=0") + "\t" + "\t".join(steps)


def cases(tier, rng, run):
    out = [Case(l, "corpus") for l in run.corpus_lines()]
    for _ in range(2500 if tier == "quick" else 40000):
        out.append(Case(gen_line(rng), "gen"))
    return out


def judge(case, impl_out, spec):
    """spec-level expectations that do not need the model: clean public data; conforming assignment succeeds"""
    parts = impl_out.split(" ## ")
    for p in parts:
        if p.startswith("ok clean=0"):
            return "public data of the model exposes more than the declared fields"
    steps = case.line.split("\t")[2:]
    # an assignment of the very value the instance was successfully built with must succeed (validate_assignment)
    ops = [s for s in steps if not s.startswith("F|")]
    if len(ops) == len(parts) and "va=1" in case.line.split("\t")[1]:
        last_ok_vals = None
        fields = [s.split("|")[1] for s in steps if s.startswith("F|")]
        for o, r in zip(ops, parts):
            if o.startswith("N|") and r.startswith("ok"):
                last_ok_vals = dict(zip(fields, o.split("|")[2].split(";")))
            elif o.startswith("N|"):
                pass
            elif o.startswith("S|") and last_ok_vals is not None:
                _, fn, v = o.split("|")
                if last_ok_vals.get(fn) == v and r.startswith("reject"):
                    return "assigning a conforming value (the one the instance was built with) raises: " + r
    if impl_out.startswith("classdef pyexc"):
        return "class definition fails with a non-dltype error: " + impl_out
    return None


def nontrivial(case, impl_out):
    return "N|" in case.line and ",0," in case.line or ",1," in case.line


def known_region(case, impl_out, model_out, spec):
    # F13: with validate_assignment the instance keeps the construction-time context
    if "va=1" in case.line.split("\t")[1] and "\tS|" in case.line:
        return "F13"
    return None
