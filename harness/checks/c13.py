"""C13 — disabled means identity; debug settings change no verdict."""
from __future__ import annotations

import concurrent.futures as cf
import json
import os
import subprocess
import sys

import common
from framework import Case, Finding

PROP = "C13"
GENERATED = ['Guards', 'SrcDecorate', 'SrcHints', 'SrcDeps', 'SrcLogs', 'SrcConstants', 'SrcLogCalls', 'HintLoop', 'Decorate', 'Wrapper', 'Core', 'Classes', 'ClassDecor', 'Resolve', 'SrcSurface']  # generated files this check's tie depends on
LEAN_MODULES = ["Properties.C13", "Properties.Prov.Decorate", "Properties.Prov.Hints", "Properties.Prov.Deps", "Properties.Prov.Logs", "Properties.Prov.Constants", "Properties.Prov.LogCalls", "Properties.CoreHints", "Properties.CoreDecorate", "Properties.CoreWrap", "Properties.Core", "Properties.CoreClasses", "Properties.CoreClassDecor", "Properties.CoreResolve", "Properties.Prov.Surface"]
NEEDS_DTYPES = False
RULE = (
    "exhaustive matrix in fresh interpreters: DLTYPE_DISABLE in {unset, 0, 1, true, false, yes, lower-case variable name=1} x "
    "DLTYPE_DEBUG_MODE in {unset, 0, 1} x logging level in {default, DEBUG}; inside each interpreter: the three decorators x enabled in "
    "{default, True, False}: `decorator(obj) is obj`, and the verdict vector of a fixed 33-call corpus (single, optional and tuple hints, a named literal followed by its bare name) (accepting and rejecting calls, all "
    "error kinds) through each decorated object, a function behind a scope provider whose sizes are numpy integers, and the decoration of six objects whose hints the enabled decorators refuse (general Union, non-tensor base, `self` provider on a plain function, no dltype hint). Expectation: identity iff the effective `enabled` is false (Lean decision table "
    "Properties/C13.lean), verdict vectors equal to the baseline configuration's. non-trivial = every (configuration, decorator, enabled) triple"
)
RULE += " Also: staticmethod / classmethod objects and hints with foreign Annotated metadata in the odd-decoration family; first checks of fresh multi-axis annotations under every configuration."
TRUSTED_EXTRA = ["environment parsing is pydantic-settings' (observed in subprocesses, not modelled)"]

CODE = r'''
import warnings; warnings.simplefilter("ignore")
import sys, json, logging
if sys.argv[1] == "DEBUG": logging.basicConfig(level=logging.DEBUG, stream=open("/dev/null", "w"))
sys.path.insert(0, sys.argv[2])
from typing import Annotated, NamedTuple
from dataclasses import dataclass
import numpy as np, dltype
A = dltype.FloatTensor["a b"]; B = dltype.FloatTensor["b c=a+b"]; I = dltype.IntTensor["*g 2"]
P = dltype.FloatTensor["p q"]; Q = dltype.IntTensor["q 2"]
N3 = dltype.FloatTensor["n=3 m"]; NV = dltype.FloatTensor["n"]   # a named literal, then the bare name
Z = lambda *s, dt=np.float32: np.zeros(s, dtype=dt)
TD = (Z(4,5), 7, Z(5,2,dt=np.int64))
TT = tuple[Annotated[np.ndarray, P], int, Annotated[np.ndarray, Q]]
def mk():
    def f(x: Annotated[np.ndarray, A], y: Annotated[np.ndarray, B] | None = None, z: Annotated[np.ndarray, I] | None = None, t: TT = TD,
          w: Annotated[np.ndarray, N3] | None = None, v: Annotated[np.ndarray, NV] | None = None): return 1
    class NT(NamedTuple):
        x: Annotated[np.ndarray, A]
        y: Annotated[np.ndarray, B] | None = None
        z: Annotated[np.ndarray, I] | None = None
        t: TT = TD
        w: Annotated[np.ndarray, N3] | None = None
        v: Annotated[np.ndarray, NV] | None = None
    @dataclass
    class DC:
        x: Annotated[np.ndarray, A]
        y: Annotated[np.ndarray, B] | None = None
        z: Annotated[np.ndarray, I] | None = None
        t: TT = TD
        w: Annotated[np.ndarray, N3] | None = None
        v: Annotated[np.ndarray, NV] | None = None
    return f, NT, DC
CORPUS = [
 (Z(2,3),), (Z(2,3), Z(3,5)), (Z(2,3), Z(3,4)), (Z(2,3), Z(4,5)), (Z(2,),), (Z(2,3,4),), (Z(2,3,dt=np.int32),), (5,), (None,),
 (Z(2,3), None, Z(4,2,dt=np.int64)), (Z(2,3), None, Z(2,dt=np.int8)), (Z(2,3), None, Z(4,3,dt=np.int64)), (Z(2,3), None, Z(4,2)),
 (Z(0,3), Z(3,3)), (Z(0,0),), (Z(1,1), Z(1,2)), (Z(1,1), Z(1,3)), (Z(2,3), Z(3,5), Z(1,1,2,dt=np.uint8)), (Z(2,3), "s"),
 (Z(2,3), Z(3,5,dt=np.float64)), (Z(2,3), Z(3,5,dt=np.int32)), (Z(2,3), Z(3,)), (Z(2,3), Z(3,5,1)), (Z(5,7), Z(7,12)),
 (Z(2,3), None, None, (Z(1,2), 0, Z(2,2,dt=np.int8))), (Z(2,3), None, None, (Z(1,2), 0, Z(3,2,dt=np.int8))), (Z(2,3), None, None, (Z(1,2,1), 0, Z(2,2,dt=np.int8))),
 (Z(2,3), None, None, (Z(1,2), 0, Z(2,2))), (Z(2,3), None, None, (Z(1,2), 0)),
 (Z(2,3), None, None, TD, Z(3,4), Z(3)), (Z(2,3), None, None, TD, Z(3,4), Z(5)), (Z(2,3), None, None, TD, Z(4,4), Z(4)), (Z(2,3), None, None, TD, None, Z(7)),
]
def verdicts(obj):
    return verdicts_of(obj, CORPUS)
def verdicts_of(obj, corpus):
    out = []
    for args in corpus:
        try:
            obj(*args); out.append("ok")
        except dltype.DLTypeError as e:
            import re
            # canonical report: the set of supported types prints in hash order, which differs between interpreters
            out.append(type(e).__name__ + "|" + re.sub(r"\{<class[^}]*\}", "{...}", str(e).split("] ", 1)[-1]))
        except Exception as e:
            out.append("EXC " + type(e).__name__)
    return out
def odd():
    # objects the ENABLED decorators refuse (or pass through with a warning) at decoration time
    import typing
    def g1(x: typing.Union[int, Annotated[np.ndarray, A]]): return 1
    def g2(x: Annotated[int, A]): return 1
    def g3(x: Annotated[np.ndarray, A]): return 1
    def g4(x: int): return 1
    class N1(NamedTuple):
        x: typing.Union[int, Annotated[np.ndarray, A]]
    @dataclass
    class D1:
        x: Annotated[int, A]
    # ... and objects it accepts but that are not plain functions / carry metadata the checker skips with a log line: a staticmethod /
    # classmethod OBJECT (the decorator written above @staticmethod), a hint with foreign Annotated metadata next to a real one
    def g5(x: Annotated[np.ndarray, A], n: Annotated[int, "count"] = 0, m: Annotated[np.ndarray, "doc", A] = None): return 1
    def g6(cls, x: Annotated[np.ndarray, A]): return 1
    class N2(NamedTuple):
        x: Annotated[np.ndarray, A]
        n: Annotated[int, "count"] = 0
    @dataclass
    class D2:
        x: Annotated[np.ndarray, A]
        n: Annotated[int, "count"] = 0
    return {"dltyped": [(g1, {}), (g2, {}), (g3, {"scope_provider": "self"}), (g4, {}), (staticmethod(g3), {}), (classmethod(g6), {}), (g5, {})],
            "dltyped_namedtuple": [(N1, {}), (N2, {})], "dltyped_dataclass": [(D1, {}), (D2, {})]}
class ProvNP:
    # sizes that are integers but not Python ints (np.prod / .max() / indexing an integer array hand back such values)
    def get_dltype_scope(self):
        return {"a": np.int64(2), "k": np.prod([1, 3])}
def provider_verdicts(kw):
    def g(x: Annotated[np.ndarray, dltype.FloatTensor["a k"]], y: Annotated[np.ndarray, dltype.FloatTensor["a*k"]] | None = None): return 1
    return verdicts_of(dltype.dltyped(ProvNP(), **kw)(g), [(Z(2,3),), (Z(2,3), Z(6)), (Z(3,3),), (Z(2,3), Z(5)), (Z(2,4),)])
def first_checks(kw):
    # annotation objects made HERE, so that each of these calls is the FIRST check an annotation object ever performs: a multi-axis group
    # (`*batch`, `...`) met for the first time by an array whose rank is not the number of written entries, then by other ranks
    out = []
    for shape, ranks in (("*batch c", (3, 1, 2, 4)), ("... c", (1, 3, 2)), ("a *mid b", (4, 2, 3)), ("2 ...", (3, 1)), ("*batch", (0, 2))):
        ann = dltype.FloatTensor[shape]
        def g(x: Annotated[np.ndarray, ann]): return 1
        d = dltype.dltyped(**kw)(g)
        out += verdicts_of(d, [(Z(*([2] * r)),) for r in ranks])
    return out
def decorations(kind, dec, kw):
    out = []
    for obj, extra in odd()[kind]:
        try:
            d = dec(**extra, **kw)(obj)
            out.append("identity" if d is obj else "wrapped")
        except Exception as e:
            out.append("EXC " + type(e).__name__)
    return out
res = {"debug_mode": bool(dltype.DEBUG_MODE)}
for kind, dec, idx in (("dltyped", dltype.dltyped, 0), ("dltyped_namedtuple", dltype.dltyped_namedtuple, 1), ("dltyped_dataclass", dltype.dltyped_dataclass, 2)):
    for en in ("default", "True", "False"):
        obj = mk()[idx]
        kw = {} if en == "default" else {"enabled": en == "True"}
        init0 = getattr(obj, "__init__", None)
        d = dec(**kw)(obj)
        # a dataclass is patched in place: "the class itself, untouched" = same object and same __init__
        res[f"{kind}/{en}"] = {"identity": (d is obj) and (kind != "dltyped_dataclass" or getattr(d, "__init__", None) is init0), "verdicts": verdicts(d),
                               "odd": decorations(kind, dec, kw), "prov": (provider_verdicts(kw) + first_checks(kw)) if kind == "dltyped" else []}
print(json.dumps(res))
'''

DISABLE = [None, "0", "1", "true", "false", "yes", ("dltype_disable", "1")]
DEBUG = [None, "0", "1"]
TRUTHY = {"1", "true", "yes"}


def one(cfg):
    dis, dbg, lvl = cfg
    env = {k: v for k, v in os.environ.items() if not k.upper().startswith("DLTYPE_")}
    if isinstance(dis, tuple):
        env[dis[0]] = dis[1]
    elif dis is not None:
        env["DLTYPE_DISABLE"] = dis
    if dbg is not None:
        env["DLTYPE_DEBUG_MODE"] = dbg
    env["JAX_PLATFORMS"] = "cpu"
    r = subprocess.run([sys.executable, "-c", CODE, lvl, common.REPO], env=env, capture_output=True, text=True, timeout=300)
    if r.returncode != 0:
        return cfg, {"error": r.stderr.strip().splitlines()[-1][:300] if r.stderr.strip() else "rc=" + str(r.returncode)}
    return cfg, json.loads(r.stdout.strip().splitlines()[-1])


def custom(run, tier):
    cfgs = [(d, g, l) for d in DISABLE for g in DEBUG for l in (["default"] if tier == "quick" else ["default", "DEBUG"])]
    if tier == "quick":
        cfgs += [(None, "1", "DEBUG"), ("1", "1", "DEBUG")]
    with cf.ThreadPoolExecutor(max_workers=12) as ex:
        results = list(ex.map(one, cfgs))
    base = next(r for c, r in results if c == (None, None, "default"))
    if "error" in base:
        run.findings.append(Finding("failing-input", "baseline configuration fails to import: " + base["error"], Case("CONFIG\tunset\tunset\tdefault", "cfg")))
        return
    base_verdicts = base["dltyped/True"]["verdicts"]
    for cfg, res in results:
        dis, dbg, lvl = cfg
        line = f"CONFIG\tDISABLE={dis}\tDEBUG_MODE={dbg}\tlogging={lvl}"
        if "error" in res:
            run.n_cases += 1
            run.findings.append(Finding("failing-input", "import fails under this configuration: " + res["error"], Case(line, "cfg"), res["error"]))
            continue
        env_disable = (dis[1] if isinstance(dis, tuple) else dis) in TRUTHY
        for kind in ("dltyped", "dltyped_namedtuple", "dltyped_dataclass"):
            for en in ("default", "True", "False"):
                run.n_cases += 1
                run.n_distinct_nontrivial += 1
                got = res[f"{kind}/{en}"]
                enabled = (not env_disable) if en == "default" else (en == "True")
                c = Case(line + f"\t{kind}\tenabled={en}", "cfg")
                if got["identity"] != (not enabled):
                    run.findings.append(Finding("failing-input", f"{kind}(enabled={en}) under DISABLE={dis}: returns the object itself = {got['identity']}, expected {not enabled}", c, str(got["identity"])))
                # objects whose hints the enabled decorator refuses: disabled = handed back untouched, nothing inspected;
                # enabled = whatever the baseline configuration does with them
                want_odd = base[f"{kind}/True"]["odd"] if enabled else ["identity"] * len(got["odd"])
                if got["odd"] != want_odd:
                    i = next(i for i, (a, b) in enumerate(zip(got["odd"], want_odd)) if a != b)
                    run.findings.append(Finding("failing-input", f"{kind}(enabled={en}) under DISABLE={dis} DEBUG_MODE={dbg}: decorating object #{i} of the odd-decoration family gives {got['odd'][i]!r}, expected {want_odd[i]!r}", c, got["odd"][i]))
                want_prov = base[f"{kind}/True"]["prov"] if enabled else ["ok"] * len(got["prov"])
                if got["prov"] != want_prov:
                    i = next(i for i, (a, b) in enumerate(zip(got["prov"], want_prov)) if a != b)
                    run.findings.append(Finding("failing-input", f"{kind}(enabled={en}) under DISABLE={dis} DEBUG_MODE={dbg} logging={lvl}: with a scope provider whose sizes are numpy integers (calls 0-4) / first checks of fresh multi-axis annotations (calls 5-), call {i} gives {got['prov'][i]!r}, baseline {want_prov[i]!r}", c, got["prov"][i]))
                want = base_verdicts if enabled else ["ok"] * len(base_verdicts)
                # constructions of disabled classes / calls of disabled functions never check; enabled ones give the baseline's verdicts and reports
                if kind == "dltyped":
                    if got["verdicts"] != want:
                        i = next(i for i, (a, b) in enumerate(zip(got["verdicts"], want)) if a != b)
                        run.findings.append(Finding("failing-input", f"{kind}(enabled={en}) under DISABLE={dis} DEBUG_MODE={dbg} logging={lvl}: verdict of corpus call {i} is {got['verdicts'][i]!r}, baseline {want[i]!r}", c, got["verdicts"][i]))
                else:
                    ref = res[f"{kind}/True"]["verdicts"] if enabled else None
                    b0 = base[f"{kind}/True"]["verdicts"]
                    if enabled and got["verdicts"] != b0:
                        i = next(i for i, (a, b) in enumerate(zip(got["verdicts"], b0)) if a != b)
                        run.findings.append(Finding("failing-input", f"{kind}(enabled={en}) under DISABLE={dis} DEBUG_MODE={dbg} logging={lvl}: verdict of corpus construction {i} is {got['verdicts'][i]!r}, baseline {b0[i]!r}", c, got["verdicts"][i]))
                    if not enabled and any(v.startswith("DLType") for v in got["verdicts"]):
                        run.findings.append(Finding("failing-input", f"{kind}(enabled={en}) under DISABLE={dis}: a check was performed although disabled", c, ""))
        if len(run.samples) < 8:
            run.samples.append({"config": line, "dltyped/default identity": res["dltyped/default"]["identity"], "debug_mode": res["debug_mode"]})
    run.coverage["interpreters"] = len(cfgs)
    run.coverage["exhaustive"] = True
    run.dist["configs"] += len(cfgs)
