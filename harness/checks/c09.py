"""C09 — contexts are isolated: no dependence on history, siblings, nesting or threads."""
from __future__ import annotations

import threading
import time

import gen_hist
import impl
import impl_hist  # noqa: F401
from framework import Case, Finding

PROP = "C09"
GENERATED = ['SharedState', 'SrcHints', 'SrcDecorate', 'SrcExpand', 'HintLoop', 'Core', 'Wrapper', 'Classes', 'Decorate', 'DtypeTables', 'ClassDecor', 'Resolve']  # generated files this check's tie depends on
LEAN_MODULES = ["Properties.C09", "Properties.Prov.Hints", "Properties.Prov.Decorate", "Properties.Prov.Expand", "Properties.CoreHints", "Properties.Core", "Properties.CoreWrap", "Properties.CoreClasses", "Properties.CoreDecorate", "Properties.CoreClassDecor", "Properties.CoreResolve"]
RULE = (
    "corpus (F8, F9 witnesses) first; seeded histories (length 12 quick / 40 thorough) over a family of <=6 functions sharing 2-3 annotation "
    "aliases and 3 providers (fresh dict per call, one long-lived dict, not a provider): decorations interleaved with accepted and rejected "
    "calls, provider updates, recursion and nesting of checked calls; after every history the provider mappings and the attributes of the "
    "shared annotation objects are compared with what they were. The model's verdict for each call is the FRESH verdict (declaration, "
    "values, provider values at that moment), so any dependence on history is a disagreement. Threads: 8 threads x 150 calls through "
    "shared decorated functions behind a barrier (one of them behind a provider whose sizes yield to other threads in the middle of every evaluation); each thread's verdict vector must equal its sequential vector. "
    "A decorated dataclass derived from a dataclass decorated before it / after it / not at all. One decorator object applied to two definitions with a same-named field (NamedTuple, dataclass, function) vs a decorator object each; a "
    "forward reference unresolved at decoration and at the first call, resolved later, vs the same function not called early. "
    "non-trivial = distinct history with >=2 calls"
)


def cases(tier, rng, run):
    out = [Case(l, "corpus") for l in run.corpus_lines()]
    n, ln = (2500, 12) if tier == "quick" else (20000, 40)
    for _ in range(n):
        out.append(Case(gen_hist.gen_hist(rng, ln), "hist"))
    return out


def judge(case, impl_out, spec):
    last = impl_out.split(" ## ")[-1]
    if last.startswith("state"):
        if "provsame=0" in last:
            return "checking modified the mapping returned by a scope provider"
        if "annsame=0" in last:
            return "decorating / checking modified a shared annotation object"
    if "args-differ" in impl_out:
        return "checking modified the arguments"
    return None


def nontrivial(case, impl_out):
    return impl_out.count("calls=") >= 2


def search(run, tier):
    """The tie broke (the shared-state audit or the correspondence).  For every history on which code and model
    disagree, replay each disagreeing call ALONE (same aliases, providers, provider updates and decorations, no
    other calls): if the code's verdict for the very same call differs from the one it gave inside the history, the
    verdict depends on the history — a concrete failing input for C09."""
    import impl

    cands = [f for f in run.findings if f.kind == "broken-correspondence" and f.case is not None and f.case.line.startswith("HIST")]
    found = 0
    for f in cands[:60]:
        steps = f.case.line.split("\t")[1:]
        io, mo = f.impl.split(" ## "), f.model.split(" ## ")
        out_steps = [i for i, s in enumerate(steps) if s.startswith("C|") or s.startswith("D|")]
        # map output parts to steps: D steps produce output only on decoration errors; recompute by replaying prefixes is costly,
        # so align through the C steps only when no decoration failed
        c_idx = [i for i, s in enumerate(steps) if s.startswith("C|")]
        if len(io) != len(c_idx) + 1 or len(mo) != len(io):
            continue
        for k, si in enumerate(c_idx):
            if io[k] == mo[k] or mo[k].endswith("unmodelled"):
                continue
            alone = [s for j, s in enumerate(steps) if not s.startswith("C|") or j == si]
            # provider updates after the call are irrelevant, keep only what precedes it
            alone = [s for j, s in enumerate(steps) if (j <= si) and (not s.startswith("C|") or j == si)]
            fresh = impl.handle("HIST\t" + "\t".join(alone)).split(" ## ")
            if len(fresh) >= 2 and fresh[0] != io[k]:
                from framework import Case, Finding

                run.findings.append(Finding("failing-input",
                    f"the verdict of a call depends on the calls made before it: inside the history {io[k]!r}, the same call alone (same decorations, same provider values) {fresh[0]!r}",
                    Case(f.case.line, "history-dependence", {}), f.impl, f.model, "alone: " + "HIST\t" + "\t".join(alone)))
                found += 1
                break
            # nesting: the same call with every body made non-nesting; if the nested function alone accepts the
            # arguments, nesting / recursion must not change the outer verdict
            fid = steps[si].split("|")[1]
            dstep = next((s for s in steps[:si][::-1] if s.startswith(f"D|{fid}|")), None)
            if dstep is not None and dstep.split("|")[5] != "-":
                g = dstep.split("|")[5]
                flat = ["|".join(s.split("|")[:5] + ["-"]) if s.startswith("D|") else s for s in alone]
                v_f = impl.handle("HIST\t" + "\t".join(flat)).split(" ## ")
                callg = steps[si].split("|")
                callg[1] = g
                flat_g = flat[:-1] + ["|".join(callg)]
                v_g = impl.handle("HIST\t" + "\t".join(flat_g)).split(" ## ")
                if v_g and v_g[0] == "calls=1 ok" and v_f and v_f[0] != io[k]:
                    from framework import Case, Finding

                    run.findings.append(Finding("failing-input",
                        f"the verdict of a call depends on the nesting of checked calls: with the nested call {io[k]!r}, without it {v_f[0]!r} although the nested function alone accepts the same arguments",
                        Case(f.case.line, "nesting-dependence", {}), f.impl, f.model, "flat: " + "HIST\t" + "\t".join(flat)))
                    found += 1
                    break
        if found >= 3:
            break
    run.coverage["history_dependence_found"] = found


def reuse_and_late(run):
    """(a) ONE decorator object applied to several functions / classes: each decorated thing is judged by its own annotations,
    exactly as with a decorator object of its own.  (b) A forward reference that is still unresolved at decoration AND at the first
    call, and resolved later: every later call is checked as if the name had always been there (an earlier call changes nothing)."""
    import dataclasses
    import typing
    import warnings

    import numpy as np

    dltype = impl.dltype
    An = typing.Annotated
    F2 = An[np.ndarray, dltype.FloatTensor["h w"]]
    I1 = An[np.ndarray, dltype.IntTensor["n"]]
    vals = {"f23": np.zeros((2, 3), np.float32), "i4": np.zeros((4,), np.int64), "f4": np.zeros((4,), np.float32), "i23": np.zeros((2, 3), np.int32)}

    def verdict(fn, *a):
        try:
            fn(*a)
            return "ok"
        except dltype.DLTypeError as e:
            return type(e).__name__
        except Exception as e:  # noqa: BLE001
            return "EXC " + type(e).__name__

    def build(kind, shared):
        """two things with a same-named field / parameter `data` and different annotations, decorated through one decorator
        object (`shared`) or through one each"""
        factory = {"nt": dltype.dltyped_namedtuple, "dc": dltype.dltyped_dataclass, "fn": dltype.dltyped}[kind]
        one = factory()
        dec = (lambda: one) if shared else factory
        # (built with exec: this module postpones the evaluation of annotations, the names must be found in the namespace)
        ns = {"typing": typing, "dataclasses": dataclasses, "F2": F2, "I1": I1}
        src = {
            "nt": "class A(typing.NamedTuple):\n    data: F2\nclass B(typing.NamedTuple):\n    data: I1\n",
            "dc": "@dataclasses.dataclass\nclass A:\n    data: F2\n@dataclasses.dataclass\nclass B:\n    data: I1\n",
            "fn": "def A(data: F2) -> None:\n    return None\ndef B(data: I1) -> None:\n    return None\n",
        }[kind]
        exec(compile(src, "<reuse>", "exec", dont_inherit=True), ns)  # noqa: S102
        A, B = ns["A"], ns["B"]
        return dec()(A), dec()(B)

    n = 0
    with warnings.catch_warnings():
        warnings.simplefilter("ignore")
        for kind in ("nt", "dc", "fn"):
            sa, sb = build(kind, True)
            fa, fb = build(kind, False)
            for nm, v in vals.items():
                for which, shared_obj, fresh_obj in (("first", sa, fa), ("second", sb, fb)):
                    n += 1
                    got, want = verdict(shared_obj, v), verdict(fresh_obj, v)
                    if got != want:
                        run.findings.append(Finding("failing-input", f"one {kind} decorator object applied to two definitions with a same-named `data`: the {which} one gives {got} for {nm}, "
                                                    f"with a decorator object of its own {want}", Case(f"REUSE\t{kind}\t{which}\t{nm}", "reuse"), got, "", want))
        # (a') a decorated dataclass deriving from a decorated dataclass: what the derived class checks must not depend on whether
        # its base was decorated before it, after it, or not at all
        verdicts = {}
        for order in ("base first", "derived first", "base undecorated"):
            nsd = {"typing": typing, "dataclasses": dataclasses, "F2": F2, "I1": I1}
            exec(compile("@dataclasses.dataclass\nclass Base:\n    data: F2\n@dataclasses.dataclass\nclass Derived(Base):\n    extra: I1\n", "<inherit>", "exec", dont_inherit=True), nsd)  # noqa: S102
            B0, D0 = nsd["Base"], nsd["Derived"]
            if order == "base first":
                dltype.dltyped_dataclass()(B0)
                D1 = dltype.dltyped_dataclass()(D0)
            elif order == "derived first":
                D1 = dltype.dltyped_dataclass()(D0)
                dltype.dltyped_dataclass()(B0)
            else:
                D1 = dltype.dltyped_dataclass()(D0)
            verdicts[order] = [verdict(D1, vals[a], vals[b2]) for a, b2 in (("f23", "i4"), ("f4", "i4"), ("f23", "f4"), ("i23", "i4"), ("f23", "i23"))]
            n += 5
        want = ["ok", "DLTypeNDimsError", "DLTypeDtypeError", "DLTypeDtypeError", "DLTypeNDimsError"]
        for order, got in verdicts.items():
            if got != want:
                run.findings.append(Finding("failing-input", f"a decorated dataclass derived from a dataclass ({order}): constructions give {got}, the fields demand {want}",
                                            Case(f"INHERIT\t{order}", "inherit"), str(got), "", str(want)))
        # (b) late forward reference
        ns = {"dltype": dltype, "np": np, "An": An}
        src = ("@dltype.dltyped()\ndef early(x: 'Late') -> None:\n    return None\n"
               "@dltype.dltyped()\ndef fresh(x: 'Late') -> None:\n    return None\n")
        exec(compile(src, "<late>", "exec"), ns)  # noqa: S102
        first = verdict(ns["early"], vals["f4"])           # `Late` does not exist yet: the call cannot be checked
        ns["Late"] = F2                                     # ... now it does
        for nm, v in vals.items():
            n += 1
            got, want = verdict(ns["early"], v), verdict(ns["fresh"], v)
            if got != want:
                run.findings.append(Finding("failing-input", f"a function whose forward reference was unresolved at its first call (which gave {first}) and resolved afterwards gives {got} for {nm}; "
                                            f"the identical function that was not called early gives {want}", Case(f"LATE\t{nm}", "late"), got, "", want))
    run.n_cases += n
    run.n_distinct_nontrivial += n
    run.dist["reuse+late"] += n
    run.coverage["reuse_and_late_calls"] = n


def custom(run, tier):
    """threads: each thread's verdict vector equals its sequential one"""
    import numpy as np

    reuse_and_late(run)

    dltype = impl.dltype
    from typing import Annotated

    T = Annotated[np.ndarray, dltype.FloatTensor["a b"]]
    U = Annotated[np.ndarray, dltype.FloatTensor["b c=a+b"]]

    class P:
        def get_dltype_scope(self):
            return {"k": 3}

    class YieldInt(int):
        """an integer whose arithmetic gives other threads a turn: a thread switch in the middle of evaluating a dimension
        expression, forced instead of hoped for"""

        def _y(self, r):
            time.sleep(0.0002)
            return r

        def __add__(self, o):
            return self._y(int(self) + int(o))

        __radd__ = __add__

        def __mul__(self, o):
            return self._y(int(self) * int(o))

        __rmul__ = __mul__

    class PY:
        def get_dltype_scope(self):
            return {"k": YieldInt(3)}

    # (built with exec: this module postpones the evaluation of annotations, so hints naming locals of this function could not be
    # resolved and the functions would run UNCHECKED — which is what this test did until a seeded change showed it to be vacuous)
    ns = {"dltype": dltype, "np": np, "Annotated": Annotated, "T": T, "U": U, "P": P, "PY": PY}
    exec(compile(
        "@dltype.dltyped()\ndef f(x: T, y: U | None = None) -> T:\n    return x\n"
        "@dltype.dltyped(P())\ndef g(x: Annotated[np.ndarray, dltype.FloatTensor['a k']]) -> None:\n    return None\n"
        # (the yielding product has `a` waiting on the operand stack)
        "@dltype.dltyped(PY())\ndef h(x: Annotated[np.ndarray, dltype.FloatTensor['a k+1 a+k*2']]) -> None:\n    return None\n",
        "<threads>", "exec", dont_inherit=True), ns)  # noqa: S102
    f, g, h = ns["f"], ns["g"], ns["h"]

    rng = run.rng
    nthreads, ncalls = (8, 150) if tier == "quick" else (16, 600)
    plans = []
    for t in range(nthreads):
        plan = []
        for _ in range(ncalls):
            a, b = rng.choice([1, 2, 3]), rng.choice([1, 2, 3])
            kind = rng.randrange(6)
            if kind == 4:
                plan.append(("h", (np.zeros((a, 4, 6 + a), np.float32),)))
            elif kind == 5:
                plan.append(("h", (np.zeros((a, 4, 5 + a), np.float32),)))
            elif kind == 0:
                plan.append(("f", (np.zeros((a, b), np.float32), np.zeros((b, a + b), np.float32))))
            elif kind == 1:
                plan.append(("f", (np.zeros((a, b), np.float32), np.zeros((b + 1, a + b), np.float32))))
            elif kind == 2:
                plan.append(("g", (np.zeros((a, 3), np.float32),)))
            else:
                plan.append(("g", (np.zeros((a, b + 3), np.float32),)))
        plans.append(plan)

    def verdict(name, args):
        try:
            {"f": f, "g": g, "h": h}[name](*args)
            return "ok"
        except dltype.DLTypeError as e:
            return impl.show_report(e)
        except Exception as e:  # noqa: BLE001
            return "pyexc " + type(e).__name__

    sequential = [[verdict(n, a) for n, a in plan] for plan in plans]
    results: list = [None] * nthreads
    barrier = threading.Barrier(nthreads)

    def work(i):
        barrier.wait()
        results[i] = [verdict(n, a) for n, a in plans[i]]

    import sys

    old = sys.getswitchinterval()
    sys.setswitchinterval(1e-5)
    try:
        ths = [threading.Thread(target=work, args=(i,)) for i in range(nthreads)]
        for t in ths:
            t.start()
        for t in ths:
            t.join()
    finally:
        sys.setswitchinterval(old)
    bad = 0
    for i in range(nthreads):
        for j, (a, b) in enumerate(zip(sequential[i], results[i])):
            run.n_cases += 1
            if a != b:
                bad += 1
                if bad <= 3:
                    run.findings.append(Finding("failing-input", f"thread {i} call {j}: concurrent verdict {b!r} differs from the sequential verdict {a!r}",
                                                Case(f"THREADS\t{nthreads}\t{ncalls}\tseed={run.seed}", "threads"), b, a, ""))
    import collections

    run.coverage["thread_verdict_kinds"] = dict(collections.Counter(" ".join(v.split(" ")[:2]) for seq in sequential for v in seq))
    run.coverage["thread_calls"] = nthreads * ncalls
    run.coverage["thread_verdict_mismatches"] = bad
    run.dist["threads:calls"] += nthreads * ncalls
