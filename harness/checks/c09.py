"""C09 — contexts are isolated: no dependence on history, siblings, nesting or threads."""
from __future__ import annotations

import threading
import time

import gen_hist
import impl
import impl_hist  # noqa: F401
from framework import Case, Finding

PROP = "C09"
GENERATED = ['SharedState', 'SrcHints', 'SrcDecorate', 'SrcExpand', 'HintLoop', 'Core', 'Wrapper', 'Classes', 'Decorate', 'DtypeTables', 'ClassDecor', 'Resolve', 'SrcSurface']  # generated files this check's tie depends on
LEAN_MODULES = ["Properties.C09", "Properties.Prov.Hints", "Properties.Prov.Decorate", "Properties.Prov.Expand", "Properties.CoreHints", "Properties.Core", "Properties.CoreWrap", "Properties.CoreClasses", "Properties.CoreDecorate", "Properties.CoreClassDecor", "Properties.CoreResolve", "Properties.Prov.Surface"]
RULE = (
    "corpus (F8, F9 witnesses) first; seeded histories (length 12 quick / 40 thorough) over a family of <=6 functions sharing 2-3 annotation "
    "aliases and 3 providers (fresh dict per call, one long-lived dict, not a provider): decorations interleaved with accepted and rejected "
    "calls, provider updates, recursion and nesting of checked calls; after every history the provider mappings and the attributes of the "
    "shared annotation objects are compared with what they were. The model's verdict for each call is the FRESH verdict (declaration, "
    "values, provider values at that moment), so any dependence on history is a disagreement. Threads: 8 threads x 150 calls through "
    "shared decorated functions behind a barrier (one of them behind a provider whose sizes yield to other threads in the middle of every evaluation); each thread's verdict vector must equal its sequential vector. "
    "A decorated dataclass derived from a dataclass decorated before it / after it / not at all. One decorator object applied to two definitions with a same-named field (NamedTuple, dataclass, function) vs a decorator object each; a "
    "forward reference unresolved at decoration and at the first call, resolved later, vs the same function not called early. "
    "non-trivial = distinct history with >=2 calls"
)
RULE += " Also: look-alike aliases (same axis names, other expression); functions made by one factory with different defaults; a value-dependent user annotation class shared by two functions and a dataclass; provider histories whose bodies update a provider; search replays: sibling dependence, a new interpreter. Providers of one type with / without the method, class providers, a long-lived mapping object that is no dict."


def cases(tier, rng, run):
    out = [Case(l, "corpus") for l in run.corpus_lines()]
    n, ln = (2500, 12) if tier == "quick" else (20000, 40)
    for _ in range(n):
        out.append(Case(gen_hist.gen_hist(rng, ln), "hist"))
    # provider histories in which a BODY changes what a provider returns while its call is running (the C12 generator): the context of the
    # running call is its own — the return value is judged under the mapping the call started with (per-call oracle of checks/c12.py)
    from checks import c12

    k = 0
    while k < (500 if tier == "quick" else 6000):
        line = c12.gen(rng, tier)
        if "|set:" in line:
            out.append(Case(line, "prov-history"))
            k += 1
    out += [Case(l, "prov-history") for l in c12.live_view_histories()]
    return out


def judge(case, impl_out, spec):
    if case.tag == "prov-history":
        from checks import c12

        return c12.judge(case, impl_out, spec)
    last = impl_out.split(" ## ")[-1]
    if last.startswith("state"):
        if "provsame=0" in last:
            return "checking modified the mapping returned by a scope provider"
        if "annsame=0" in last:
            return "decorating / checking modified a shared annotation object"
    if "args-differ" in impl_out:
        return "checking modified the arguments"
    return None


def nontrivial(case, impl_out):
    return impl_out.count("calls=") >= 2


def search(run, tier):
    """The tie broke (the shared-state audit or the correspondence).  For every history on which code and model
    disagree, replay each disagreeing call ALONE (same aliases, providers, provider updates and decorations, no
    other calls): if the code's verdict for the very same call differs from the one it gave inside the history, the
    verdict depends on the history — a concrete failing input for C09."""
    import impl

    cands = [f for f in run.findings if f.kind == "broken-correspondence" and f.case is not None and f.case.line.startswith("HIST")]
    found = 0
    found += _siblings_and_process(run, cands)
    # (a history in which a BODY updates a provider cannot be replayed with calls left out: the calls left out may be what changed the provider)
    cands = [f for f in cands if "|set:" not in f.case.line] + [f for f in cands if "|set:" in f.case.line]
    for f in [f for f in cands if "|set:" not in f.case.line][:60]:
        steps = f.case.line.split("\t")[1:]
        io, mo = f.impl.split(" ## "), f.model.split(" ## ")
        out_steps = [i for i, s in enumerate(steps) if s.startswith("C|") or s.startswith("D|")]
        # map output parts to steps: D steps produce output only on decoration errors; recompute by replaying prefixes is costly,
        # so align through the C steps only when no decoration failed
        c_idx = [i for i, s in enumerate(steps) if s.startswith("C|")]
        if len(io) != len(c_idx) + 1 or len(mo) != len(io):
            continue
        for k, si in enumerate(c_idx):
            if io[k] == mo[k] or mo[k].endswith("unmodelled"):
                continue
            alone = [s for j, s in enumerate(steps) if not s.startswith("C|") or j == si]
            # provider updates after the call are irrelevant, keep only what precedes it
            alone = [s for j, s in enumerate(steps) if (j <= si) and (not s.startswith("C|") or j == si)]
            fresh = impl.handle("HIST\t" + "\t".join(alone)).split(" ## ")
            if len(fresh) >= 2 and fresh[0] != io[k]:
                from framework import Case, Finding

                run.findings.append(Finding("failing-input",
                    f"the verdict of a call depends on the calls made before it: inside the history {io[k]!r}, the same call alone (same decorations, same provider values) {fresh[0]!r}",
                    Case(f.case.line, "history-dependence", {}), f.impl, f.model, "alone: " + "HIST\t" + "\t".join(alone)))
                found += 1
                break
            # siblings: the same call with ONLY what takes part in it — the aliases its own hints name, its own declaration, the
            # providers — none of the other annotation objects and functions of the history (which were created / decorated before it)
            import re

            fid0 = steps[si].split("|")[1]
            d0 = next((j for j in range(si - 1, -1, -1) if steps[j].startswith(f"D|{fid0}|")), None)
            if d0 is not None and steps[d0].split("|")[5] == "-":
                used = set(re.findall(r"T\d+", "|".join(steps[d0].split("|")[3:5])))
                minimal = [s for j, s in enumerate(steps[: si + 1]) if (s.startswith("A|") and s.split("|")[1] in used) or s.startswith(("V|", "S|")) or j == d0 or j == si]
                v_m = impl.handle("HIST\t" + "\t".join(minimal)).split(" ## ")
                if len(v_m) >= 2 and v_m[0] != io[k] and not v_m[0].startswith(("decor", "unknown", "bad-op")):
                    from framework import Case, Finding

                    run.findings.append(Finding("failing-input",
                        f"the verdict of a call depends on annotation objects and functions that take no part in it: inside the history {io[k]!r}, with only its own aliases, declaration and "
                        f"providers {v_m[0]!r}", Case(f.case.line, "sibling-dependence", {}), f.impl, f.model, "minimal: " + "HIST\t" + "\t".join(minimal)))
                    found += 1
                    break
            # nesting: the same call with every body made non-nesting; if the nested function alone accepts the
            # arguments, nesting / recursion must not change the outer verdict
            fid = steps[si].split("|")[1]
            dstep = next((s for s in steps[:si][::-1] if s.startswith(f"D|{fid}|")), None)
            if dstep is not None and dstep.split("|")[5] != "-":
                g = dstep.split("|")[5]
                flat = ["|".join(s.split("|")[:5] + ["-"]) if s.startswith("D|") else s for s in alone]
                v_f = impl.handle("HIST\t" + "\t".join(flat)).split(" ## ")
                callg = steps[si].split("|")
                callg[1] = g
                flat_g = flat[:-1] + ["|".join(callg)]
                v_g = impl.handle("HIST\t" + "\t".join(flat_g)).split(" ## ")
                if v_g and v_g[0] == "calls=1 ok" and v_f and v_f[0] != io[k]:
                    from framework import Case, Finding

                    run.findings.append(Finding("failing-input",
                        f"the verdict of a call depends on the nesting of checked calls: with the nested call {io[k]!r}, without it {v_f[0]!r} although the nested function alone accepts the same arguments",
                        Case(f.case.line, "nesting-dependence", {}), f.impl, f.model, "flat: " + "HIST\t" + "\t".join(flat)))
                    found += 1
                    break
        if found >= 3:
            break
    run.coverage["history_dependence_found"] = found


def _siblings_and_process(run, cands) -> int:
    """Two more replays of a history on which code and model disagree.  (1) Every call with ONLY what takes part in it — the aliases
    its own hints name, its own declaration, the providers and their updates — compared with the same call inside the history (the
    verdict inside = the last call of the prefix that ends with it): a difference means the verdict depends on annotation objects and
    functions that take no part in the call.  (2) The whole history in a NEW interpreter: a difference means the verdict depends on
    what this process checked before (a process-wide cache keyed by something that does not tell two annotations apart)."""
    import re

    import impl

    found = 0

    def last_call(steps):
        parts = impl.handle("HIST\t" + "\t".join(steps)).split(" ## ")
        return parts[-2] if len(parts) >= 2 and parts[-1].startswith("state") else None

    for f in [f for f in cands if "|set:" not in f.case.line][:12]:
        steps = f.case.line.split("\t")[1:]
        c_idx = [i for i, s in enumerate(steps) if s.startswith("C|")]
        for si in c_idx[:14]:
            fid0 = steps[si].split("|")[1]
            d0 = next((j for j in range(si - 1, -1, -1) if steps[j].startswith(f"D|{fid0}|")), None)
            if d0 is None or steps[d0].split("|")[5] != "-" or steps[d0].split("|")[2].startswith("self"):
                continue
            used = set(re.findall(r"T\d+", "|".join(steps[d0].split("|")[3:5])))
            minimal = [s for j, s in enumerate(steps[: si + 1]) if (s.startswith("A|") and s.split("|")[1] in used) or s.startswith(("V|", "S|")) or j == d0 or j == si]
            inside, alone = last_call(steps[: si + 1]), last_call(minimal)
            if inside is None or alone is None or inside == alone or inside.startswith(("decor", "unknown")) or alone.startswith(("decor", "unknown")):
                continue
            run.findings.append(Finding("failing-input",
                f"the verdict of a call depends on annotation objects and functions that take no part in it: inside the history {inside!r}, with only its own aliases, declaration and "
                f"providers {alone!r}", Case("HIST\t" + "\t".join(steps[: si + 1]), "sibling-dependence", {}), inside, "", "minimal: " + "HIST\t" + "\t".join(minimal) + " -> " + alone))
            found += 1
            break
        if found >= 3:
            return found
    lines = [f.case.line for f in cands[:6]]
    fresh = impl.fresh_process(lines) if lines else None
    for f, fr in zip(cands[:6], fresh or []):
        if fr != f.impl and not fr.startswith("harness-error"):
            run.findings.append(Finding("failing-input",
                "the verdicts of a history depend on what the process checked before it: after the other histories of this run the code gives the first output, "
                f"in a new interpreter the second (the model gives {f.model[:160]!r})", Case(f.case.line, "process-dependence", {}), f.impl, fr, "fresh interpreter: " + fr))
            found += 1
            if found >= 3:
                break
    return found


def reuse_and_late(run):
    """(a) ONE decorator object applied to several functions / classes: each decorated thing is judged by its own annotations,
    exactly as with a decorator object of its own.  (b) A forward reference that is still unresolved at decoration AND at the first
    call, and resolved later: every later call is checked as if the name had always been there (an earlier call changes nothing)."""
    import dataclasses
    import typing
    import warnings

    import numpy as np

    dltype = impl.dltype
    An = typing.Annotated
    F2 = An[np.ndarray, dltype.FloatTensor["h w"]]
    I1 = An[np.ndarray, dltype.IntTensor["n"]]
    vals = {"f23": np.zeros((2, 3), np.float32), "i4": np.zeros((4,), np.int64), "f4": np.zeros((4,), np.float32), "i23": np.zeros((2, 3), np.int32)}

    def verdict(fn, *a):
        try:
            fn(*a)
            return "ok"
        except dltype.DLTypeError as e:
            return type(e).__name__
        except Exception as e:  # noqa: BLE001
            return "EXC " + type(e).__name__

    def build(kind, shared):
        """two things with a same-named field / parameter `data` and different annotations, decorated through one decorator
        object (`shared`) or through one each"""
        factory = {"nt": dltype.dltyped_namedtuple, "dc": dltype.dltyped_dataclass, "fn": dltype.dltyped}[kind]
        one = factory()
        dec = (lambda: one) if shared else factory
        # (built with exec: this module postpones the evaluation of annotations, the names must be found in the namespace)
        ns = {"typing": typing, "dataclasses": dataclasses, "F2": F2, "I1": I1}
        src = {
            "nt": "class A(typing.NamedTuple):\n    data: F2\nclass B(typing.NamedTuple):\n    data: I1\n"
                  "class C(typing.NamedTuple):\n    first: F2\n    second: I1\nclass D(typing.NamedTuple):\n    second: F2\n",
            "dc": "@dataclasses.dataclass\nclass A:\n    data: F2\n@dataclasses.dataclass\nclass B:\n    data: I1\n"
                  "@dataclasses.dataclass\nclass C:\n    first: F2\n    second: I1\n@dataclasses.dataclass\nclass D:\n    second: F2\n",
            "fn": "def A(data: F2) -> None:\n    return None\ndef B(data: I1) -> None:\n    return None\n"
                  "def C(first: F2, second: I1) -> None:\n    return None\ndef D(second: F2) -> None:\n    return None\n",
        }[kind]
        exec(compile(src, "<reuse>", "exec", dont_inherit=True), ns)  # noqa: S102
        return {k: dec()(ns[k]) for k in "ABCD"}

    n = 0
    with warnings.catch_warnings():
        warnings.simplefilter("ignore")
        for kind in ("nt", "dc", "fn"):
            # four definitions (A / B share the name `data`, C / D have names and counts of their own) through ONE decorator object,
            # called in either order: whichever is called first must not decide what the others check
            for order in ("ABCD", "DCBA", "CADB"):
                shared, fresh = build(kind, True), build(kind, False)
                for which in order:
                    argsets = [(v,) for v in vals.values()] if which != "C" else [(a, b) for a in vals.values() for b in vals.values()]
                    for args in argsets:
                        n += 1
                        got, want = verdict(shared[which], *args), verdict(fresh[which], *args)
                        if got != want:
                            nm = ",".join(k for a in args for k, v in vals.items() if v is a)
                            run.findings.append(Finding("failing-input", f"one {kind} decorator object applied to four definitions (called in the order {order}): `{which}` gives {got} for ({nm}), "
                                                        f"with a decorator object of its own {want}", Case(f"REUSE\t{kind}\t{order}\t{which}\t{nm}", "reuse"), got, "", want))
        # (a') a decorated dataclass deriving from a decorated dataclass: what the derived class checks must not depend on whether
        # its base was decorated before it, after it, or not at all
        verdicts = {}
        for order in ("base first", "derived first", "base undecorated"):
            nsd = {"typing": typing, "dataclasses": dataclasses, "F2": F2, "I1": I1}
            exec(compile("@dataclasses.dataclass\nclass Base:\n    data: F2\n@dataclasses.dataclass\nclass Derived(Base):\n    extra: I1\n", "<inherit>", "exec", dont_inherit=True), nsd)  # noqa: S102
            B0, D0 = nsd["Base"], nsd["Derived"]
            if order == "base first":
                dltype.dltyped_dataclass()(B0)
                D1 = dltype.dltyped_dataclass()(D0)
            elif order == "derived first":
                D1 = dltype.dltyped_dataclass()(D0)
                dltype.dltyped_dataclass()(B0)
            else:
                D1 = dltype.dltyped_dataclass()(D0)
            verdicts[order] = [verdict(D1, vals[a], vals[b2]) for a, b2 in (("f23", "i4"), ("f4", "i4"), ("f23", "f4"), ("i23", "i4"), ("f23", "i23"))]
            n += 5
        want = ["ok", "DLTypeNDimsError", "DLTypeDtypeError", "DLTypeDtypeError", "DLTypeNDimsError"]
        for order, got in verdicts.items():
            if got != want:
                run.findings.append(Finding("failing-input", f"a decorated dataclass derived from a dataclass ({order}): constructions give {got}, the fields demand {want}",
                                            Case(f"INHERIT\t{order}", "inherit"), str(got), "", str(want)))
        # (a'') functions made by ONE factory (they share a code object) that differ in the default of a hinted parameter: each is
        # checked with ITS default, whichever was made / decorated / called first
        def row(k):
            return np.zeros((k,), np.float32)

        fsrc = ("def make(default):\n    @dltype.dltyped()\n    def scale(x: V, w: V = default) -> None:\n        SEEN.append(len(w))\n        return None\n    return scale\n")
        for order in ((3, 5), (5, 3), (3, 5, 4)):
            nsf = {"dltype": dltype, "V": An[np.ndarray, dltype.FloatTensor["n"]], "SEEN": []}
            exec(compile(fsrc, "<factory>", "exec", dont_inherit=True), nsf)  # noqa: S102
            made = {k: nsf["make"](row(k)) for k in order}
            for k in order[::-1] + order:
                for arg in (3, 4, 5):
                    n += 1
                    del nsf["SEEN"][:]
                    got, want = verdict(made[k], row(arg)), ("ok" if arg == k else "DLTypeShapeError")
                    if got != want or (got == "ok" and nsf["SEEN"] != [k]):
                        run.findings.append(Finding("failing-input", f"functions made by one factory with defaults of length {order}: the one whose default has length {k}, called with x of length {arg} "
                                                    f"and w left at its default, gives {got} (body saw w of length {nsf['SEEN']}), expected {want}",
                                                    Case(f"FACTORY\t{order}\t{k}\t{arg}", "factory"), got, "", want))
        # (b) late forward reference
        ns = {"dltype": dltype, "np": np, "An": An}
        src = ("@dltype.dltyped()\ndef early(x: 'Late') -> None:\n    return None\n"
               "@dltype.dltyped()\ndef fresh(x: 'Late') -> None:\n    return None\n")
        exec(compile(src, "<late>", "exec"), ns)  # noqa: S102
        first = verdict(ns["early"], vals["f4"])           # `Late` does not exist yet: the call cannot be checked
        ns["Late"] = F2                                     # ... now it does
        for nm, v in vals.items():
            n += 1
            got, want = verdict(ns["early"], v), verdict(ns["fresh"], v)
            if got != want:
                run.findings.append(Finding("failing-input", f"a function whose forward reference was unresolved at its first call (which gave {first}) and resolved afterwards gives {got} for {nm}; "
                                            f"the identical function that was not called early gives {want}", Case(f"LATE\t{nm}", "late"), got, "", want))
    run.n_cases += n
    run.n_distinct_nontrivial += n
    run.dist["reuse+late"] += n
    run.coverage["reuse_and_late_calls"] = n


def value_dependent_annotation(run):
    """A user subclass of a tensor type whose `check` looks at the VALUES (the documented extension point), shared through a type
    alias by two functions and a dataclass: what an earlier call with an array of the same shape and dtype was told decides nothing
    for a later array — every array is judged itself (no verdict is remembered per annotation / shape / dtype)."""
    import dataclasses
    import typing
    import warnings

    import numpy as np

    dltype = impl.dltype

    class NonNegative(dltype.FloatTensor):
        def check(self, tensor, tensor_name="anonymous"):
            super().check(tensor, tensor_name)
            if (np.asarray(tensor) < 0).any():
                raise ValueError(f"{tensor_name} has negative entries")

    ns = {"typing": typing, "np": np, "dltype": dltype, "dataclasses": dataclasses, "NN": typing.Annotated[np.ndarray, NonNegative["n k"]]}
    src = ("@dltype.dltyped()\ndef f(x: NN) -> NN:\n    return x\n@dltype.dltyped()\ndef g(y: NN, z: NN) -> None:\n    return None\n"
           "@dltype.dltyped_dataclass()\n@dataclasses.dataclass\nclass D:\n    w: NN\n")
    with warnings.catch_warnings():
        warnings.simplefilter("ignore")
        exec(compile(src, "<valuedep>", "exec", dont_inherit=True), ns)  # noqa: S102
    good, bad, good2 = np.ones((2, 3), np.float32), -np.ones((2, 3), np.float32), np.zeros((2, 3), np.float32)
    calls = {"f": lambda a: ns["f"](a), "g": lambda a: ns["g"](good2, a), "D": lambda a: ns["D"](a)}
    n = 0
    for order in (("f", "g", "D"), ("D", "g", "f"), ("g", "f", "D")):
        for seq in (("good", "bad", "good"), ("bad", "good", "bad"), ("good", "good", "bad", "bad")):
            for who in order:
                for step, what in enumerate(seq):
                    arr = {"good": good, "bad": bad}[what]
                    try:
                        calls[who](arr)
                        got = "ok"
                    except ValueError:
                        got = "ValueError"
                    except Exception as e:  # noqa: BLE001
                        got = "EXC " + type(e).__name__
                    n += 1
                    want = "ok" if what == "good" else "ValueError"
                    if got != want:
                        run.findings.append(Finding("failing-input", f"an annotation class whose check() looks at the values, shared by f, g and a dataclass: call #{step} of {who} ({'>'.join(seq)}; "
                                                    f"order {order}) with a {what} array of shape (2, 3) float32 gives {got}, its own check demands {want}",
                                                    Case(f"VALUEDEP\t{'/'.join(order)}\t{who}\t{'>'.join(seq)}\t#{step}", "valuedep"), got, "", want))
    run.n_cases += n
    run.n_distinct_nontrivial += n
    run.dist["value-dependent annotation"] += n


def custom(run, tier):
    """threads: each thread's verdict vector equals its sequential one"""
    import numpy as np

    reuse_and_late(run)
    value_dependent_annotation(run)

    dltype = impl.dltype
    from typing import Annotated

    T = Annotated[np.ndarray, dltype.FloatTensor["a b"]]
    U = Annotated[np.ndarray, dltype.FloatTensor["b c=a+b"]]

    class P:
        def get_dltype_scope(self):
            return {"k": 3}

    class YieldInt(int):
        """an integer whose arithmetic gives other threads a turn: a thread switch in the middle of evaluating a dimension
        expression, forced instead of hoped for"""

        def _y(self, r):
            time.sleep(0.0002)
            return r

        def __add__(self, o):
            return self._y(int(self) + int(o))

        __radd__ = __add__

        def __mul__(self, o):
            return self._y(int(self) * int(o))

        __rmul__ = __mul__

    class PY:
        def get_dltype_scope(self):
            return {"k": YieldInt(3)}

    # (built with exec: this module postpones the evaluation of annotations, so hints naming locals of this function could not be
    # resolved and the functions would run UNCHECKED — which is what this test did until a seeded change showed it to be vacuous)
    ns = {"dltype": dltype, "np": np, "Annotated": Annotated, "T": T, "U": U, "P": P, "PY": PY}
    exec(compile(
        "@dltype.dltyped()\ndef f(x: T, y: U | None = None) -> T:\n    return x\n"
        "@dltype.dltyped(P())\ndef g(x: Annotated[np.ndarray, dltype.FloatTensor['a k']]) -> None:\n    return None\n"
        # (the yielding product has `a` waiting on the operand stack)
        "@dltype.dltyped(PY())\ndef h(x: Annotated[np.ndarray, dltype.FloatTensor['a k+1 a+k*2']]) -> None:\n    return None\n",
        "<threads>", "exec", dont_inherit=True), ns)  # noqa: S102
    f, g, h = ns["f"], ns["g"], ns["h"]

    rng = run.rng
    nthreads, ncalls = (8, 150) if tier == "quick" else (16, 600)
    plans = []
    for t in range(nthreads):
        plan = []
        for _ in range(ncalls):
            a, b = rng.choice([1, 2, 3]), rng.choice([1, 2, 3])
            kind = rng.randrange(6)
            if kind == 4:
                plan.append(("h", (np.zeros((a, 4, 6 + a), np.float32),)))
            elif kind == 5:
                plan.append(("h", (np.zeros((a, 4, 5 + a), np.float32),)))
            elif kind == 0:
                plan.append(("f", (np.zeros((a, b), np.float32), np.zeros((b, a + b), np.float32))))
            elif kind == 1:
                plan.append(("f", (np.zeros((a, b), np.float32), np.zeros((b + 1, a + b), np.float32))))
            elif kind == 2:
                plan.append(("g", (np.zeros((a, 3), np.float32),)))
            else:
                plan.append(("g", (np.zeros((a, b + 3), np.float32),)))
        plans.append(plan)

    def verdict(name, args):
        try:
            {"f": f, "g": g, "h": h}[name](*args)
            return "ok"
        except dltype.DLTypeError as e:
            return impl.show_report(e)
        except Exception as e:  # noqa: BLE001
            return "pyexc " + type(e).__name__

    sequential = [[verdict(n, a) for n, a in plan] for plan in plans]
    results: list = [None] * nthreads
    barrier = threading.Barrier(nthreads)

    def work(i):
        barrier.wait()
        results[i] = [verdict(n, a) for n, a in plans[i]]

    import sys

    old = sys.getswitchinterval()
    sys.setswitchinterval(1e-5)
    try:
        ths = [threading.Thread(target=work, args=(i,)) for i in range(nthreads)]
        for t in ths:
            t.start()
        for t in ths:
            t.join()
    finally:
        sys.setswitchinterval(old)
    bad = 0
    for i in range(nthreads):
        for j, (a, b) in enumerate(zip(sequential[i], results[i])):
            run.n_cases += 1
            if a != b:
                bad += 1
                if bad <= 3:
                    run.findings.append(Finding("failing-input", f"thread {i} call {j}: concurrent verdict {b!r} differs from the sequential verdict {a!r}",
                                                Case(f"THREADS\t{nthreads}\t{ncalls}\tseed={run.seed}", "threads"), b, a, ""))
    import collections

    run.coverage["thread_verdict_kinds"] = dict(collections.Counter(" ".join(v.split(" ")[:2]) for seq in sequential for v in seq))
    run.coverage["thread_calls"] = nthreads * ncalls
    run.coverage["thread_verdict_mismatches"] = bad
    run.dist["threads:calls"] += nthreads * ncalls
