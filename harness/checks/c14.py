"""C14 — functions, dataclasses, NamedTuples and pydantic models give the same verdict."""
from __future__ import annotations

import gen_ctx
import impl
import impl_call  # noqa: F401
from checks import callcommon
from framework import Case, Finding

PROP = "C14"
GENERATED = ['DtypeTables', 'Core', 'Classes', 'SrcDecorate', 'SrcHints', 'SrcPydantic', 'HintLoop', 'PydHook', 'Wrapper', 'Decorate', 'ShapeLoop', 'ClassDecor', 'Resolve', 'SrcSurface']  # generated files this check's tie depends on
LEAN_MODULES = ["Properties.C14", "Properties.Core", "Properties.CoreClasses", "Properties.Prov.Decorate", "Properties.Prov.Hints", "Properties.Prov.Pydantic", "Properties.CoreHints", "Properties.CorePyd", "Properties.CoreWrap", "Properties.CoreDecorate", "Properties.CoreShape", "Properties.CoreClassDecor", "Properties.CoreResolve", "Properties.Prov.Surface"]
RULE = (
    "seeded ordered field lists (1-4 fields over the context dimension alphabet: optional fields, multi-axis, expressions, mixed plain "
    "fields; values arrays of the declared library or None for optional fields; 0-1 perturbations; in a third of the lists two fields share one annotation object through a type alias, one of them `| None`) generated once and presented in all four "
    "forms (dltyped function, dltyped dataclass, dltyped NamedTuple, pydantic model), positionally and by keyword in declaration and reversed "
    "order, the dataclass also with its first fields on a (plain or decorated) base class; the four verdicts and reports must be equal to each other (and to the model's). non-trivial = distinct field list with >=2 "
    "annotated fields"
)
RULE += " Also: family `unwrap-forms` — base types spelled through a `type`-statement alias (npt.NDArray[...], user-defined generic aliases of typing / typing_extensions, bare aliases) x three tensor classes x the three decorator forms x a conforming / wrong-rank / wrong-dtype value: the outcome of the same declaration with the type written out."


def custom(run, tier):
    # base types spelled through a `type`-statement alias (npt.NDArray[...], user-defined generic aliases): each decorator form gives the
    # outcome of the same declaration with the type written out
    from checks import unwrapcommon

    unwrapcommon.forms(run, tier)


def cases(tier, rng, run):
    out = []
    n = 2500 if tier == "quick" else 40000
    for gi in range(n):
        c = gen_ctx.gen_ctx(rng, tuple_p=0.0, ret_p=0.0, provider_p=0.0, perturb=(0, 0, 1), alias_p=0)
        # values must be arrays or None-under-optional
        ok = all(s.value[0] == "T" or (s.value[0] == "N" and s.optional) for p in c.params for s in p.slots)
        if not ok:
            continue
        if rng.random() < 0.4:
            # plain (un-annotated) fields in any position, the first one included
            for _ in range(rng.randint(1, 2)):
                pos = rng.randint(0, len(c.params))
                c.params.insert(pos, gen_ctx.Param(f"k{len(c.params)}", [gen_ctx.Slot(None, None, False, ("X",), pspell=rng.choice(["-", "-", "-a", "-u", "-o"]))], False))
        alias = ""
        ann = [p for p in c.params if p.slots[0].cls is not None and p.slots[0].value[0] == "T"]
        if len(ann) >= 2 and rng.random() < 0.35:
            # a type alias: two fields share ONE annotation object, one of them spelled `Alias | None`
            a, b2 = rng.sample(ann, 2)
            sa, sb = a.slots[0], b2.slots[0]
            sb.cls, sb.shape, sb.value = sa.cls, sa.shape, sa.value
            sa.optional, sb.optional = rng.choice([(True, False), (False, True), (True, True)])
            for s_ in (sa, sb):
                if s_.optional and rng.random() < 0.6:
                    s_.value = ("N",)
            alias = "\tAL"
        for kind, style in (("func", rng.choice(["pos", "kw", "kwrev", "kwrev"])), ("nt", rng.choice(["pos", "kw", "kwrev"])), ("dc", rng.choice(["pos", "kw", "kwrev", "inherit", "inherit2"])), ("pyd", rng.choice(["kw", "kwrev"]))):
            out.append(Case(c.call_line(kind, style) + alias, kind, {"group": gi, "ctx": c}))
    gi = n
    for c in gen_ctx.rebinding_contexts(with_provider=False) + gen_ctx.group_contexts():
        gi += 1
        for kind, style in (("func", "pos"), ("nt", "kw"), ("dc", "pos"), ("pyd", "kw")):
            out.append(Case(c.call_line(kind, style), kind, {"group": gi, "ctx": c}))
    return out


def judge(case, impl_out, spec):
    return None


def second_pass(run, cases_, impl_out):
    groups: dict = {}
    for c, io in zip(cases_, impl_out):
        groups.setdefault(c.meta["group"], []).append((c, callcommon.end_of(io)))
    for g, items in groups.items():
        ends = {e for _, e in items}
        if len(ends) > 1:
            c0 = items[0][0]
            desc = "; ".join(f"{c.tag}: {e}" for c, e in items)
            run.findings.append(Finding("failing-input", "the four entry points disagree on the same field list: " + desc, c0, desc, "", ""))
    return []


def nontrivial(case, impl_out):
    c = case.meta.get("ctx")
    return c is not None and sum(1 for p in c.params for s in p.slots if s.cls) >= 2
