"""C07 — arguments are validated before the body runs; the result before it is returned."""
from __future__ import annotations

import gen_ctx
from checks import callcommon, ctxcommon
from framework import Case

PROP = "C07"
GENERATED = ['DtypeTables', 'Wrapper', 'SrcHints', 'SrcDecorate', 'Core', 'SrcExpand', 'HintLoop', 'Decorate', 'Resolve', 'SrcSurface']  # generated files this check's tie depends on
LEAN_MODULES = ["Properties.C07", "Properties.CoreWrap", "Properties.Prov.Hints", "Properties.Prov.Decorate", "Properties.Core", "Properties.Prov.Expand", "Properties.CoreHints", "Properties.CoreDecorate", "Properties.CoreResolve", "Properties.Prov.Surface"]
RULE = (
    "seeded dltyped functions (1-4 parameters, tuples, optionals, providers, return hint; positional, keyword, mixed, keyword-only and positional-only parameters, forward references, trailing parameters left at their default value) called with inputs that are conforming except "
    "for one violation placed in a single argument position / tuple element, or only in the return value; the body appends to a side-effect "
    "log and assert_context is logged too (harness-side wrapper), so the order of events is observed: no body event before a rejected "
    "argument check, exactly one body event before a rejected return check. non-trivial = distinct line whose argument or return phase "
    "violates by the oracle"
)
RULE += " Also: one decorator object applied to several functions; functions whose only dltype hint is the return annotation; Optional[tuple[...]] with None elements. The provider histories of C12 (order-of-checks demands); the callable family of C08."


def cases(tier, rng, run):
    out = [Case(l, "corpus") for l in run.corpus_lines()]
    for _ in range(9000 if tier == "quick" else 150000):
        c = gen_ctx.gen_ctx(rng, perturb=(1,), tuple_p=0.25, ret_p=0.6)
        # (a third of the calls leave the last 1-2 parameters at their DEFAULT value: a default is an argument like any other)
        omit = rng.choice([0, 0, 0, 0, 1, 2])
        kind = "method" if rng.random() < 0.2 else "func"
        style = rng.choice(["pos", "kw", "kwrev", "mixed", "fwd", "fwdpos", "kwonly", "posonly"] + (["kwself", "kwself"] if kind == "method" else []))
        out.append(Case(c.call_line(kind, style, prov=(("self" if c.scope else "-") if kind == "method" else None), omit=omit, explicit=rng.random() < 0.5), "call", {"ctx": c}))
    # `Optional[tuple[A, B]]`: the elements are no more optional than under `tuple[A, B]` — None in an element position is a violating
    # argument (the body does not run) / a violating result (not handed to the caller)
    for specs, vals in (("FloatTensor,0,a;FloatTensor,0,b", "N;T,0:float32,2"), ("FloatTensor,0,a;FloatTensor,0,b", "T,0:float32,2;N"), ("FloatTensor,0,a;FloatTensor,0,a 2", "N;N"),
                        ("FloatTensor,0,a;-;FloatTensor,0,a", "T,0:float32,2;X;N")):
        for style in ("pos", "kw"):
            out.append(Case(f"CALL\tfunc:{style}\t-\t\tP|t|TO|{specs}|U:{vals}", "opt-tuple"))
            out.append(Case(f"CALL\tfunc:{style}\t-\t\tP|x|S|FloatTensor,0,a|T,0:float32,2\tP|t|TO|{specs}|U:{vals}", "opt-tuple"))
            out.append(Case(f"CALL\tfunc:{style}\t-\t\tP|x|S|FloatTensor,0,a|T,0:float32,2\tR|TO|{specs}|U:{vals}", "opt-tuple"))
        out.append(Case(f"CALL\tmethod:pos\t-\t\tP|t|TO|{specs}|U:{vals}", "opt-tuple"))
    # provider histories (the C12 generator): what a provider returns may change between two calls of ONE decorated function — an argument
    # that violates under the mapping of THIS call never reaches the body, a result that violates is never handed over
    import impl_hist  # noqa: F401
    from checks import c12

    for _ in range(500 if tier == "quick" else 6000):
        out.append(Case(c12.gen(rng, tier), "prov-history"))
    out += [Case(l, "prov-history") for l in c12.live_view_histories()]
    # functions whose ONLY dltype hint is the return annotation (factories, loaders): no parameter at all, or parameters of plain types —
    # the result is checked all the same: the body has run once, the violating value is not handed to the caller
    rets = [("S|FloatTensor,0,a b", "T,0:float32,2"), ("S|FloatTensor,0,a b", "T,1:int32,2.3"), ("S|FloatTensor,0,3 a", "T,0:float32,2.5"), ("S|FloatTensor,0,a a", "T,2:float32,2.3"),
            ("T|FloatTensor,0,a b;FloatTensor,0,a", "U:T,0:float32,2.3;T,0:float32,3"), ("S|FloatTensor,0,a b", "X"), ("S|FloatTensor,0,a b", "N"), ("S|IntTensor,1,a", "T,0:float32,4")]
    for spec, v in rets:
        for style in ("pos", "kw"):
            for params in ([], ["P|n|S|-|X"], ["P|n|S|-|X", "P|opts|S|-a|X"], ["PD|n|S|-|X"]):
                out.append(Case("\t".join(["CALL", f"func:{style}", "-", "", *params, f"R|{spec}|{v}"]), "return-only"))
            out.append(Case("\t".join(["CALL", "method:pos", "self", "k:3", f"R|{spec}|{v}"]), "return-only"))
    return out


def judge(case, impl_out, spec):
    if case.tag == "prov-history":
        from checks import c12

        why = c12.judge(case, impl_out, spec)
        case.meta["nt"] = True
        return why if why and (" violates " in why) else None   # (the order-of-checks demands only; the rest of that oracle belongs to C02 / C12)
    c = ctxcommon.ctx_of(case)
    if c is None:
        return None
    sa, sw = callcommon.phase_spec(c)
    calls = callcommon.field(impl_out, "calls")
    end = callcommon.end_of(impl_out)
    args_bad = (sa is not None and sa[0] == "violates") or callcommon.unsupported_first(c, with_ret=False)
    if args_bad:
        case.meta["nt"] = True
        if calls != "0":
            return "an argument violates its annotation but the body was executed: " + impl_out
        if not end.startswith(("reject", "pyexc")):
            return "an argument violates its annotation but no error was raised: " + impl_out
        return None
    if sa is not None and sa[0] == "conforms" and sa[1]["ordered"]:
        ret_bad = (sw is not None and sw[0] == "violates") or callcommon.unsupported_first(c, with_ret=True)
        if ret_bad:
            case.meta["nt"] = True
            if calls != "1":
                return "only the return value violates, but the body ran " + str(calls) + " times"
            if end == "ok":
                return "the return value violates its annotation but was handed to the caller"
            if callcommon.field(impl_out, "pre") != "1":
                return "the body ran before the argument check"
    return None


def nontrivial(case, impl_out):
    return bool(case.meta.get("nt"))


def second_pass(run, cs, impl_out):
    """The same calls on a "slow machine": the evaluation-time warning threshold is set below any measurable time, so
    every context evaluation takes the slow-evaluation warning path.  Order of events and verdicts must not change."""
    import importlib
    import warnings

    import impl
    from framework import Finding

    K = importlib.import_module("dltype._lib._constants")
    idx = [i for i, c in enumerate(cs) if c.tag == "corpus"] + list(range(len(cs)))[:: max(1, len(cs) // (2500 if run.tier == "quick" else 20000))]
    old = K.MAX_ACCEPTABLE_EVALUATION_TIME_NS
    K.MAX_ACCEPTABLE_EVALUATION_TIME_NS = -1
    n = bad = 0
    try:
        with warnings.catch_warnings():
            warnings.simplefilter("ignore")
            for i in idx:
                got = impl.handle(cs[i].line)
                n += 1
                if got != impl_out[i]:
                    bad += 1
                    if bad <= 5:
                        run.findings.append(Finding("failing-input", "the outcome of a call changes when the context evaluation is slower than the warning threshold "
                                                    f"(MAX_ACCEPTABLE_EVALUATION_TIME_NS): normally {impl_out[i]!r}, slow {got!r}", Case(cs[i].line, "slow", {}), got, impl_out[i], ""))
    finally:
        K.MAX_ACCEPTABLE_EVALUATION_TIME_NS = old
    run.n_cases += n
    run.coverage["slow_path_calls"] = n
    run.coverage["slow_path_differences"] = bad
    run.dist["slow-path"] += n
    return None


def custom(run, tier):
    """In-place reshaping bodies: parameter and return hint share ONE annotation object (a type alias); the body changes
    the shape of its argument in place and returns that very object.  The return check must judge the object as it is
    AFTER the body (identity of the array or of the annotation must not let it skip the check)."""
    import typing
    import warnings

    import numpy as np
    import torch

    import impl
    from framework import Finding

    dltype = impl.dltype
    from checks import c02

    c02.stacked(run)   # arguments are validated before the body also when another functools.wraps decorator sits underneath
    from checks import c09

    c09.reuse_and_late(run)   # ... and when the decorator object was applied to other functions before (each function queues ITS parameters)
    from checks import c08

    c08.custom(run, tier)     # ... and when the decorated thing is not a plain function (a staticmethod object, a jitted function, a functools.wraps wrapper): every fault is still caught before the callee runs
    ann = dltype.FloatTensor["r c"]
    n = 0
    for lib, base in (("numpy", np.ndarray), ("torch", torch.Tensor)):
        T = typing.Annotated[base, ann]
        log = []
        new_shape = [None]

        def body(x):
            log.append("body")
            if lib == "numpy":
                x.shape = new_shape[0]
            else:
                x.resize_(*new_shape[0])
            return x

        body.__annotations__ = {"x": T, "return": T}
        with warnings.catch_warnings():
            warnings.simplefilter("ignore")
            f = dltype.dltyped()(body)
            for r in (1, 2, 3):
                for c in (1, 2, 3, 4):
                    for how, ns in (("same", (r, c)), ("transposed", (c, r)), ("flattened", (r * c,)), ("extra axis", (r, c, 1)), ("regrouped", (1, r * c))):
                        x = np.zeros((r, c), np.float32) if lib == "numpy" else torch.zeros((r, c))
                        new_shape[0] = ns
                        del log[:]
                        try:
                            out = f(x)
                            got = "returned" + ("" if out is x else "-different-object")
                        except dltype.DLTypeError as e:
                            got = "rejected " + type(e).__name__
                        except Exception as e:  # noqa: BLE001
                            got = "pyexc " + type(e).__name__
                        want = "returned" if ns == (r, c) else "rejected"
                        n += 1
                        line = f"INPLACE\t{lib}\tx:{r}.{c}\tbody reshapes x in place to {'.'.join(map(str, ns))} ({how}) and returns it\tone shared annotation FloatTensor['r c']"
                        if len(log) != 1:
                            run.findings.append(Finding("failing-input", f"the body ran {len(log)} times for conforming arguments", Case(line, "inplace"), got, "", want))
                        elif not got.startswith(want) or got.endswith("different-object"):
                            run.findings.append(Finding("failing-input", f"the body returned its argument reshaped in place to {ns}; under the return annotation 'r c' with r={r}, c={c} the call must be {want}, but it {got}",
                                                        Case(line, "inplace"), got, "", want))
                        if n % 37 == 0 and len(run.samples) < 12:
                            run.samples.append({"op": line, "impl": got, "tag": "inplace"})
    run.n_cases += n
    run.n_distinct_nontrivial += n
    run.dist["inplace"] += n
    run.coverage["inplace_calls"] = n
