"""C07 — arguments are validated before the body runs; the result before it is returned."""
from __future__ import annotations

import gen_ctx
from checks import callcommon, ctxcommon
from framework import Case

PROP = "C07"
GENERATED = ['DtypeTables']  # generated files this check's tie depends on
LEAN_MODULES = ["Properties.C07"]
RULE = (
    "seeded dltyped functions (1-4 parameters, tuples, optionals, providers, return hint) called with inputs that are conforming except "
    "for one violation placed in a single argument position / tuple element, or only in the return value; the body appends to a side-effect "
    "log and assert_context is logged too (harness-side wrapper), so the order of events is observed: no body event before a rejected "
    "argument check, exactly one body event before a rejected return check. non-trivial = distinct line whose argument or return phase "
    "violates by the oracle"
)


def cases(tier, rng, run):
    out = [Case(l, "corpus") for l in run.corpus_lines()]
    for _ in range(9000 if tier == "quick" else 150000):
        c = gen_ctx.gen_ctx(rng, perturb=(1,), tuple_p=0.25, ret_p=0.6)
        out.append(Case(c.call_line("func", rng.choice(["pos", "kw", "mixed", "fwd"])), "call", {"ctx": c}))
    return out


def judge(case, impl_out, spec):
    c = ctxcommon.ctx_of(case)
    if c is None:
        return None
    sa, sw = callcommon.phase_spec(c)
    calls = callcommon.field(impl_out, "calls")
    end = callcommon.end_of(impl_out)
    args_bad = (sa is not None and sa[0] == "violates") or callcommon.unsupported_first(c, with_ret=False)
    if args_bad:
        case.meta["nt"] = True
        if calls != "0":
            return "an argument violates its annotation but the body was executed: " + impl_out
        if not end.startswith(("reject", "pyexc")):
            return "an argument violates its annotation but no error was raised: " + impl_out
        return None
    if sa is not None and sa[0] == "conforms" and sa[1]["ordered"]:
        ret_bad = (sw is not None and sw[0] == "violates") or callcommon.unsupported_first(c, with_ret=True)
        if ret_bad:
            case.meta["nt"] = True
            if calls != "1":
                return "only the return value violates, but the body ran " + str(calls) + " times"
            if callcommon.field(impl_out, "pre") != "1":
                return "the body ran before the argument check"
            if end == "ok":
                return "the return value violates its annotation but was handed to the caller"
    return None


def nontrivial(case, impl_out):
    return bool(case.meta.get("nt"))
