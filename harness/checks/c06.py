"""C06 — malformed shape strings raise SyntaxError when the annotation is built."""
from __future__ import annotations

import gens
import pyref
from framework import Case


class _Two(dict):
    """scope that binds every name to 2"""

    def __contains__(self, k):
        return True

    def __getitem__(self, k):
        return 2

    def get(self, k, d=None):
        return 2


PROP = "C06"
GENERATED = ['ParserTables', 'SrcParser', 'SrcShape', 'TokLoop', 'DimFlags', 'ShapeLoop', 'ParseHelpers', 'ParseLoop']  # generated files this check's tie depends on
LEAN_MODULES = ["Properties.C06", "Properties.Prov.Parser", "Properties.Prov.Shape", "Properties.CoreTok", "Properties.CoreEval", "Properties.CoreShape", "Properties.CoreParse", "Properties.CoreParseLoop", "Properties.CoreExpr"]
NEEDS_DTYPES = True
RULE = (
    "corpus (witnesses of F6) first; exhaustive: every string of <=4 (quick) / <=5 (thorough) tokens over a 21-symbol alphabet "
    "{a b 1 2 + - * / ^ ( ) , min isqrt = ... max x_1 07 space ?} as a one-dimension shape; multi-dimension shapes with 0-3 markers; "
    "grammar-directed mutation (delete / duplicate / swap / insert token, printable-ASCII noise) of valid strings; self-referential named dimensions through every operator and function; malformed strings met twice; every accepted string is "
    "then USED in a context (array of matching rank, identifiers bound) to see that nothing parse-related surfaces later. "
    "non-trivial = distinct string that is outside the documented grammar (independent recogniser in Lean: Spec/Grammar.lean)"
)


def cases(tier, rng, run):
    out = [Case(l, "corpus") for l in run.corpus_lines()]
    n = 4 if tier == "quick" else 5
    alpha = gens.ALPHA21 if tier == "quick" else gens.ALPHA21[:16]
    for s in gens.token_strings(alpha, n):
        if "\t" in s:
            continue
        out.append(Case(f"SHAPE\t{s}", "exh"))
    if tier != "quick":
        for s in gens.token_strings(gens.ALPHA21, 4):
            out.append(Case(f"SHAPE\t{s}", "exh21"))
    # multi-dimension shapes, markers
    dims = ["a", "2", "b=3", "...", "*g", "*h", "a+1", "c=a*2", "a=a", "x=...", "1=2", "a(b)+"]
    for _ in range(4000 if tier == "quick" else 40000):
        k = rng.randint(1, 5)
        out.append(Case("SHAPE\t" + " ".join(rng.choice(dims) for _ in range(k)), "multi"))
    # mutations of valid strings
    atoms = ["a", "b", "x_1", "2", "10"]
    for _ in range(12000 if tier == "quick" else 200000):
        e = gens.rand_expr(rng, rng.randint(1, 6), atoms)
        if rng.random() < 0.3:
            e = rng.choice(["n", "out"]) + "=" + e
        for _ in range(rng.randint(1, 2)):
            e = gens.mutate(rng, e)
        if "\t" in e or "\n" in e:
            continue
        out.append(Case(f"SHAPE\t{e}", "mut"))
    # self-reference: a named dimension whose own name occurs in its expression — through every operator and function, nested in
    # groups, as the only operand of the unary function, next to other dimensions
    for v in ("n", "x_1"):
        bodies = [v, f"({v})", f"{v}+1", f"1+{v}", f"{v}-a", f"a*{v}", f"{v}/2", f"2^{v}", f"{v}^2", f"isqrt({v})", f"isqrt(({v}))", f"isqrt({v})+1", f"min({v},a)", f"max(a,{v})",
                  f"min(a,isqrt({v}))", f"(a+{v})*2", f"a+b*{v}", f"isqrt(isqrt({v}))"]
        for bdy in bodies:
            for ctx_ in ("{}", "b {}", "{} c", "*g {}"):
                out.append(Case("SHAPE\t" + ctx_.format(f"{v}={bdy}"), "selfref"))
    # the same malformed string met twice (a remembered result of the first attempt must not let the second one through)
    for s_ in ("dim+", "a+*b", "(b)(c)", "2(n)", "min(x)", "k-", "a b+", "n=isqrt(n)"):
        out.append(Case(f"SHAPE\t{s_}", "twice"))
        out.append(Case(f"SHAPE\t{s_}", "twice"))
        out.append(Case(f"USE\t{s_}", "twice"))
    # use what is accepted (decided on the implementation's answer in a second pass: see custom)
    return out


def judge(case, impl_out, spec):
    op = case.line.split("\t")[0]
    if spec == "NG":
        if impl_out.startswith("ok") or impl_out in ("accept",) or impl_out.startswith("reject"):
            return "a string outside the documented grammar is accepted under some other meaning"
        if impl_out.startswith("pyexc"):
            return "a malformed string raises " + impl_out.split(" ")[1] + " instead of SyntaxError"
    if op == "USE" and impl_out.startswith("pyexc"):
        exc = impl_out.split(" ")[1]
        if spec.startswith("G") and exc in ("ZeroDivisionError", "ValueError", "OverflowError"):
            # a string of the grammar whose ARITHMETIC is undefined for the sizes used here (division by zero, root of a
            # negative, a negative exponent going through floating point): nothing parse-related; the class of such
            # errors is C08's subject (F7)
            return None
        return "an accepted annotation fails later, during a call, with " + exc
    return None


def nontrivial(case, impl_out):
    return impl_out.startswith("err") or impl_out.startswith("pyexc")


def known_region(case, impl_out, model_out, spec):
    # F6: the faithful model itself accepts (or fails late on) strings outside the grammar
    if spec == "NG" and not model_out.startswith("err SyntaxError"):
        return "F6"
    if case.line.startswith("USE") and model_out.startswith("pyexc"):
        return "F6"
    return None


def custom(run, tier):
    pass


def second_pass(run, cases_, impl_out):
    """USE every string the implementation accepted"""
    use = []
    seen = set()
    for c, io in zip(cases_, impl_out):
        if c.line.startswith("SHAPE") and io.startswith("ok"):
            s = c.line.split("\t", 1)[1]
            if s not in seen:
                seen.add(s)
                # keep the arithmetic of the use computable (power towers): every identifier is bound to 2
                if all(pyref.feasible(d, _Two()) for d in s.split()):
                    use.append(Case(f"USE\t{s}", "use"))
    return use
